/*
 * k3_place - C side of the K3 placement check (property C07).
 *
 * Every caller object of a job (message source, destination, IV, AAD, tag,
 * every key-material buffer, CBCS next_iv, direct-API contexts) is copied into
 * its own arena slot  [PROT_NONE page][data pages][PROT_NONE page]  and the job
 * is run with the objects placed
 *     mid    somewhere inside the mapped data pages (ordinary placement),
 *     end    so that the object's LAST byte is followed by the guard page,
 *     start  so that the object's FIRST byte is preceded by the guard page.
 * Bytes of the slot around an object are filled with a per-run random pattern
 * (canaries and, for input objects, "poisoned neighbours").  A SIGSEGV/SIGBUS
 * handler records the faulting address, the slot (job, object) it belongs to
 * and the instruction pointer, and leaves the library with siglongjmp; the
 * manager is re-initialised afterwards.
 *
 * Checked after every run (oracle = the contract of coq/Struct/Footprint.v,
 * mirrored by contract() below and compared with the extracted Coq function
 * through --footprint):
 *   - no fault, no hang;
 *   - canaries around every object intact (dst: nothing outside the
 *     destination range, tag: nothing beyond the requested tag length);
 *   - objects that are only readable are unchanged (keys, IV, AAD, source of an
 *     out-of-place job);
 *   - writable objects changed only inside the contract's write ranges
 *     (bit modes: bits outside the bit range preserved);
 *   - outputs (status, dst, tag, next_iv, source after the job) identical to
 *     the reference run with ordinary placement: in place == out of place,
 *     guard placement == ordinary placement, poisoned neighbours A == B.
 *
 * The work-item format is the one of K1_FORMAT.md (imbh.c is reused textually
 * for parsing, key preparation and job filling); `inplace=` is ignored, both
 * forms are run.  Output: FAIL / CNT / SUMMARY lines, see c07.py.
 */
#define _GNU_SOURCE
#include <signal.h>
#include <setjmp.h>
#include <ucontext.h>
#include <unistd.h>
#include <sys/mman.h>
#include <sys/personality.h>
#include <dlfcn.h>

#include "imbh.c"

/* ========================================================================= */
/* arena */

#define PG       4096u
#define DATA_PG  4u
#define DATA_SZ  (DATA_PG * PG)
#define SLOT_PG  (DATA_PG + 2u)
#define MAX_OBJ  16
#define MAX_JOBS 33
#define NEIGH    256u /* canary / poison bytes checked on either side of an object */
#define MID_OFF  1024u
#define ARENA_AT ((void *) 0x200000000000ull)

enum { O_SRC, O_DST, O_IV, O_AAD, O_TAG, O_ENC, O_DEC, O_KS0, O_KS1, O_KS2, O_NIV, O_AK0, O_AK1,
       O_AK2, O_CTX, O_NUM };
static const char *const obj_id_name[O_NUM] = { "src", "dst", "iv",  "aad", "tag", "enc_keys",
                                                "dec_keys", "ks0", "ks1", "ks2", "next_iv", "ak0",
                                                "ak1", "ak2", "ctx" };
enum { S_MID, S_END, S_START };
static const char *const side_name[3] = { "mid", "end", "start" };

static uint8_t *g_arena;
static size_t g_arena_sz;

static uint8_t *
slot_data(const int job, const int obj)
{
        return g_arena + ((size_t) (job * MAX_OBJ + obj) * SLOT_PG + 1) * PG;
}

static void
arena_init(void)
{
        g_arena_sz = (size_t) MAX_JOBS * MAX_OBJ * SLOT_PG * PG;
        g_arena = mmap(ARENA_AT, g_arena_sz, PROT_READ | PROT_WRITE,
                       MAP_PRIVATE | MAP_ANONYMOUS | MAP_NORESERVE, -1, 0);
        if (g_arena == MAP_FAILED) {
                perror("mmap");
                exit(2);
        }
        for (int s = 0; s < MAX_JOBS * MAX_OBJ; s++) {
                uint8_t *b = g_arena + (size_t) s * SLOT_PG * PG;

                if (mprotect(b, PG, PROT_NONE) != 0 ||
                    mprotect(b + (size_t) (SLOT_PG - 1) * PG, PG, PROT_NONE) != 0) {
                        perror("mprotect");
                        exit(2);
                }
        }
}

/* ========================================================================= */
/* objects, contract, cases */

typedef struct {
        int present;
        const char *name; /* suite specific name */
        uint8_t *orig;    /* address used by the imbh structures */
        size_t size;      /* documented size of the caller object */
        unsigned align;   /* documented alignment */
        int writable;     /* has write ranges in the contract */
        uint8_t *init;    /* pristine content */
        /* current placement */
        uint8_t *cur;
        int side, flush;
        size_t lo, hi; /* neighbour bytes filled below / above */
        uint64_t fill; /* seed of the neighbour fill */
} k3_obj;

typedef struct {
        int valid;
        int status;
        uint8_t *dst, *tag, *src;
        uint8_t niv[16];
} k3_outcome;

typedef struct {
        const imbh_item *it0;
        imbh_item it_oop, it_ip;
        imbh_run *r;
        k3_obj o[O_NUM];
        /* contract: destination write range in bytes relative to job->dst, masks of the
         * first and last byte (bit modes), offset of job->dst in the source when in place */
        size_t d_from, d_to;
        uint8_t d_mf, d_ml;
        size_t doff_ip;
        /* write ranges inside the source buffer that exist besides the destination range */
        size_t sw_from[3], sw_to[3];
        int nsw;
        size_t tag_cmp; /* tag bytes with defined content */
        int ip_only;    /* suite documented as in-place only */
        int oop_only;   /* in-place run not meaningful (no cipher) */
        int cbcs;       /* only every tenth 16-byte block is written */
        int direct_only; /* rejected by the job API, accepted by the direct API (CFB one block) */
        int ctx_kind;   /* 0 none, 1 gcm context, 2 chacha20-poly1305 context */
        unsigned pli;
        k3_outcome ref;
        int tag_ip_sep;    /* chained cipher->hash: the tag of an in-place job is taken over the
                              cipher output, that of an out-of-place job over the source */
        int ref_ip_valid;
        uint8_t *ref_ip_tag;
        int slot;
        int suite;
        uint8_t ksptr_expect[24];
} k3_case;

static size_t g_snow3g_ks, g_kasumi_ks;

static size_t
aes_sched_size(const size_t kn)
{
        return kn == 16 ? 176 : kn == 24 ? 208 : kn == 32 ? 240 : 0;
}

static size_t
hmac_state_size(const int h)
{
        switch (h) {
        case IMB_AUTH_HMAC_SHA_1:
                return 20;
        case IMB_AUTH_HMAC_SHA_224:
        case IMB_AUTH_HMAC_SHA_256:
        case IMB_AUTH_HMAC_SM3:
                return 32;
        case IMB_AUTH_HMAC_SHA_384:
        case IMB_AUTH_HMAC_SHA_512:
                return 64;
        case IMB_AUTH_MD5:
                return 16;
        default:
                return 0;
        }
}

static void
add_obj(k3_case *c, const int id, const char *name, const void *orig, const size_t size,
        const unsigned align, const int writable)
{
        k3_obj *o = &c->o[id];

        if (orig == NULL)
                return;
        o->present = 1;
        o->name = name;
        o->orig = (uint8_t *) (uintptr_t) orig;
        o->size = size;
        o->align = align;
        o->writable = writable;
        o->init = malloc(size ? size : 1);
        if (o->init == NULL)
                exit(2);
        memcpy(o->init, o->orig, size);
}

static unsigned
pon_pli(const imbh_item *it)
{
        if (it->hoff + 8 > it->msg.n)
                return 0;
        return ((unsigned) it->msg.p[it->hoff] << 6) | (it->msg.p[it->hoff + 1] >> 2);
}

/*
 * The contract (mirror of coq/Struct/Footprint.v): which objects exist, their
 * documented sizes, and the write ranges.
 */
static void
contract(k3_case *c, IMB_MGR *mgr)
{
        const imbh_item *it = &c->it_oop;
        imbh_run *r = c->r;
        struct imbh_keys *k = r->keys;
        const int cm = it->cipher, h = it->hash;
        const size_t kn = it->key.n;
        const int have_key = kn != 0 && k->enc_ptr != NULL;

        (void) mgr;
        /* ---- destination range ---- */
        c->d_from = c->d_to = 0;
        c->d_mf = c->d_ml = 0xff;
        if (cm == IMB_CIPHER_NULL) {
                c->oop_only = 1;
        } else if (cm == IMB_CIPHER_CNTR_BITLEN) {
                c->d_to = (size_t) ((it->clen + 7) / 8);
                if (it->clen & 7)
                        c->d_ml = (uint8_t) (0xff << (8 - (it->clen & 7)));
        } else if (cipher_off_in_bits(cm)) {
                if (((it->coff | it->clen) & 7) == 0) {
                        c->d_to = (size_t) (it->clen / 8);
                } else {
                        const uint64_t e = it->coff + it->clen;

                        c->d_from = (size_t) (it->coff / 8);
                        c->d_to = (size_t) ((e + 7) / 8);
                        c->d_mf = (uint8_t) (0xff >> (it->coff & 7));
                        if (e & 7)
                                c->d_ml = (uint8_t) (0xff << (8 - (e & 7)));
                }
        } else {
                c->d_to = (size_t) it->clen;
        }
        c->cbcs = cm == IMB_CIPHER_CBCS_1_9;
        c->doff_ip = (size_t) dst_ptr_offset(it);
        c->pli = 0;
        c->nsw = 0;
        c->tag_cmp = (size_t) it->tag;
        if (h == IMB_AUTH_DOCSIS_CRC32) {
                c->ip_only = 1;
                if (it->dir == IMB_DIR_ENCRYPT && it->hlen >= IMB_DOCSIS_CRC32_MIN_ETH_PDU_SIZE) {
                        c->sw_from[c->nsw] = (size_t) (it->hoff + it->hlen);
                        c->sw_to[c->nsw++] = (size_t) (it->hoff + it->hlen + 4);
                }
        }
        if (cm == IMB_CIPHER_PON_AES_CNTR) {
                c->ip_only = 1;
                c->pli = pon_pli(it);
                if (it->dir == IMB_DIR_ENCRYPT) {
                        c->sw_from[c->nsw] = (size_t) it->hoff; /* XGEM header: HEC update */
                        c->sw_to[c->nsw++] = (size_t) it->hoff + 8;
                        if (c->pli > 4) {
                                c->sw_from[c->nsw] = (size_t) it->coff + c->pli - 4;
                                c->sw_to[c->nsw++] = (size_t) it->coff + c->pli;
                        }
                }
                if (c->pli <= 4)
                        c->tag_cmp = 4; /* CRC half of the tag is not defined (K1_FORMAT) */
                if (kn == 0) {
                        /* no ciphering: nothing is written through dst */
                        c->d_to = 0;
                }
        }

        /* ---- message buffers ---- */
        add_obj(c, O_SRC, "src", r->src, it->msg.n, 1, c->ip_only);
        if (cm != IMB_CIPHER_NULL && !c->ip_only && r->dst != NULL)
                add_obj(c, O_DST, "dst", r->dst + c->doff_ip, c->d_to, 1, 1);
        if (c->o[O_DST].present)
                for (size_t i = 0; i < c->d_to; i++) /* prefill independent of K1's area offset */
                        c->o[O_DST].init[i] = (uint8_t) (0xC3 ^ (i * 7));
        add_obj(c, O_IV, "iv", r->iv, it->iv.n, 1, 0);
        add_obj(c, O_AAD, "aad", r->aad, it->aad.n, 1, 0);
        if (h != IMB_AUTH_NULL && it->tag != 0)
                add_obj(c, O_TAG, "tag", r->tag, r->tag_room, 1, 1);

        /* ---- cipher key material ---- */
        if (have_key)
                switch (cm) {
                case IMB_CIPHER_CBC:
                case IMB_CIPHER_CBCS_1_9:
                case IMB_CIPHER_ECB:
                case IMB_CIPHER_DOCSIS_SEC_BPI:
                case IMB_CIPHER_CNTR:
                case IMB_CIPHER_CNTR_BITLEN:
                case IMB_CIPHER_CCM:
                case IMB_CIPHER_PON_AES_CNTR:
                case IMB_CIPHER_CFB:
                        add_obj(c, O_ENC, "enc_keys(aes)", k->enc, aes_sched_size(kn), 16, 0);
                        if (k->dec_ptr == (const void *) k->dec)
                                add_obj(c, O_DEC, "dec_keys(aes)", k->dec, aes_sched_size(kn), 16,
                                        0);
                        break;
                case IMB_CIPHER_GCM:
                case IMB_CIPHER_SM4_GCM:
                        add_obj(c, O_ENC, "gcm_key_data", &k->gcm, sizeof(k->gcm), 64, 0);
                        break;
                case IMB_CIPHER_DES:
                case IMB_CIPHER_DOCSIS_DES:
                        add_obj(c, O_ENC, "des_sched", k->des_ks[0], IMB_DES_KEY_SCHED_SIZE, 16, 0);
                        break;
                case IMB_CIPHER_DES3:
                        add_obj(c, O_ENC, "des3_ks_ptrs", k->ks_ptr, sizeof(k->ks_ptr), 8, 0);
                        add_obj(c, O_KS0, "des3_sched0", k->des_ks[0], IMB_DES_KEY_SCHED_SIZE, 16, 0);
                        add_obj(c, O_KS1, "des3_sched1", k->des_ks[1], IMB_DES_KEY_SCHED_SIZE, 16, 0);
                        add_obj(c, O_KS2, "des3_sched2", k->des_ks[2], IMB_DES_KEY_SCHED_SIZE, 16, 0);
                        break;
                case IMB_CIPHER_SM4_ECB:
                case IMB_CIPHER_SM4_CBC:
                case IMB_CIPHER_SM4_CNTR:
                        add_obj(c, O_ENC, "enc_keys(sm4)", k->enc, 4 * IMB_SM4_KEY_SCHEDULE_ROUNDS,
                                16, 0);
                        if (k->dec_ptr == (const void *) k->dec)
                                add_obj(c, O_DEC, "dec_keys(sm4)", k->dec,
                                        4 * IMB_SM4_KEY_SCHEDULE_ROUNDS, 16, 0);
                        break;
                case IMB_CIPHER_SNOW3G_UEA2_BITLEN:
                        add_obj(c, O_ENC, "snow3g_sched", k->snow3g_c, g_snow3g_ks, 16, 0);
                        break;
                case IMB_CIPHER_KASUMI_UEA1_BITLEN:
                        add_obj(c, O_ENC, "kasumi_sched", &k->kas_c, g_kasumi_ks, 16, 0);
                        break;
                case IMB_CIPHER_NULL:
                        break;
                default: /* raw key: ZUC, ChaCha20, SNOW-V */
                        add_obj(c, O_ENC, "raw_key", k->raw_c, kn < 64 ? kn : 64, 16, 0);
                        break;
                }
        if (cm == IMB_CIPHER_CBCS_1_9)
                add_obj(c, O_NIV, "next_iv", k->next_iv, 16, 1, 1);

        /* ---- authentication key material ---- */
        if (k->akey_set)
                switch (h) {
                case IMB_AUTH_HMAC_SHA_1:
                case IMB_AUTH_HMAC_SHA_224:
                case IMB_AUTH_HMAC_SHA_256:
                case IMB_AUTH_HMAC_SHA_384:
                case IMB_AUTH_HMAC_SHA_512:
                case IMB_AUTH_MD5:
                case IMB_AUTH_HMAC_SM3:
                        add_obj(c, O_AK0, "ipad", k->ipad, hmac_state_size(h), 1, 0);
                        add_obj(c, O_AK1, "opad", k->opad, hmac_state_size(h), 1, 0);
                        break;
                case IMB_AUTH_AES_XCBC:
                        add_obj(c, O_AK0, "xcbc_k1_exp", k->k1_exp, 176, 16, 0);
                        add_obj(c, O_AK1, "xcbc_k2", k->k2, 16, 16, 0);
                        add_obj(c, O_AK2, "xcbc_k3", k->k3, 16, 16, 0);
                        break;
                case IMB_AUTH_AES_CMAC:
                case IMB_AUTH_AES_CMAC_BITLEN:
                case IMB_AUTH_AES_CMAC_256:
                        add_obj(c, O_AK0, "cmac_key_exp", k->k1_exp,
                                h == IMB_AUTH_AES_CMAC_256 ? 240 : 176, 16, 0);
                        add_obj(c, O_AK1, "cmac_skey1", k->k2, 16, 16, 0);
                        add_obj(c, O_AK2, "cmac_skey2", k->k3, 16, 16, 0);
                        break;
                case IMB_AUTH_AES_GMAC_128:
                case IMB_AUTH_AES_GMAC_192:
                case IMB_AUTH_AES_GMAC_256:
                        add_obj(c, O_AK0, "gmac_key_data", &k->gmac, sizeof(k->gmac), 64, 0);
                        add_obj(c, O_AK1, "gmac_iv", r->aiv, it->aiv.n, 1, 0);
                        break;
                case IMB_AUTH_GHASH:
                        add_obj(c, O_AK0, "ghash_key_data", &k->gmac, sizeof(k->gmac), 64, 0);
                        add_obj(c, O_AK1, "ghash_init_tag", r->aiv, it->aiv.n, 1, 0);
                        break;
                case IMB_AUTH_ZUC_EIA3_BITLEN:
                case IMB_AUTH_ZUC256_EIA3_BITLEN:
                        add_obj(c, O_AK0, "zuc_eia3_key", k->raw_a, it->akey.n, 16, 0);
                        add_obj(c, O_AK1, "zuc_eia3_iv", r->aiv, it->aiv.n, 16, 0);
                        break;
                case IMB_AUTH_SNOW3G_UIA2_BITLEN:
                        add_obj(c, O_AK0, "snow3g_uia2_sched", k->snow3g_a, g_snow3g_ks, 16, 0);
                        add_obj(c, O_AK1, "snow3g_uia2_iv", r->aiv, it->aiv.n, 16, 0);
                        break;
                case IMB_AUTH_KASUMI_UIA1:
                        add_obj(c, O_AK0, "kasumi_uia1_sched", &k->kas_a, g_kasumi_ks, 16, 0);
                        break;
                case IMB_AUTH_POLY1305:
                        add_obj(c, O_AK0, "poly1305_key", k->raw_a, 32, 16, 0);
                        break;
                default:
                        break;
                }

        /* ---- contexts of the direct API ---- */
        static uint8_t ctx_orig[256] AL(64);

        if (cm == IMB_CIPHER_GCM || (h >= IMB_AUTH_AES_GMAC_128 && h <= IMB_AUTH_AES_GMAC_256))
                c->ctx_kind = 1;
        else if (cm == IMB_CIPHER_CHACHA20_POLY1305)
                c->ctx_kind = 2;
        if (c->ctx_kind)
                add_obj(c, O_CTX, c->ctx_kind == 1 ? "gcm_context_data" : "chacha_poly_context",
                        ctx_orig,
                        c->ctx_kind == 1 ? sizeof(struct gcm_context_data)
                                         : sizeof(struct chacha20_poly1305_context_data),
                        16, 1);
}

static k3_case *
case_new(IMB_MGR *mgr, const imbh_item *it, const int slot)
{
        k3_case *c = calloc(1, sizeof(*c));

        if (c == NULL)
                exit(2);
        c->it0 = it;
        c->it_oop = *it;
        c->it_oop.inplace = 0;
        c->it_oop.hdst = 0;
        c->it_ip = c->it_oop;
        c->it_ip.inplace = 1;
        c->slot = slot;
        c->r = imbh_run_new(mgr, &c->it_oop);
        if (c->r->prep_err == 0) {
                contract(c, mgr);
                const size_t n = it->msg.n ? it->msg.n : 1;

                c->ref.dst = calloc(1, c->d_to ? c->d_to : 1);
                c->ref.tag = calloc(1, c->r->tag_room ? c->r->tag_room : 1);
                c->ref.src = calloc(1, n);
                c->ref_ip_tag = calloc(1, c->r->tag_room ? c->r->tag_room : 1);
                const int aead = it->cipher == IMB_CIPHER_GCM || it->cipher == IMB_CIPHER_CCM ||
                                 it->cipher == IMB_CIPHER_CHACHA20_POLY1305 ||
                                 it->cipher == IMB_CIPHER_SNOW_V_AEAD ||
                                 it->cipher == IMB_CIPHER_SM4_GCM ||
                                 it->cipher == IMB_CIPHER_PON_AES_CNTR ||
                                 it->hash == IMB_AUTH_DOCSIS_CRC32;

                c->tag_ip_sep = it->cipher != IMB_CIPHER_NULL && it->hash != IMB_AUTH_NULL &&
                                !aead && it->order == IMB_ORDER_CIPHER_HASH;
        }
        return c;
}

static void
case_free(k3_case *c)
{
        for (int i = 0; i < O_NUM; i++)
                free(c->o[i].init);
        free(c->ref.dst);
        free(c->ref.tag);
        free(c->ref.src);
        free(c->ref_ip_tag);
        c->r->it = &c->it_oop;
        imbh_run_free(c->r);
        free(c);
}

/* objects too large for a slot: the case is skipped (counted) */
static int
case_fits(const k3_case *c)
{
        for (int i = 0; i < O_NUM; i++)
                if (c->o[i].present && c->o[i].size + 2 * MID_OFF + 64 > DATA_SZ)
                        return 0;
        return 1;
}

/* ========================================================================= */
/* placement */

static void
fill_neigh(uint8_t *p, const size_t n, uint64_t seed)
{
        imbh_fill_random(&seed, p, n);
}

static int
check_neigh(const uint8_t *p, const size_t n, uint64_t seed, size_t *bad_at)
{
        uint8_t tmp[NEIGH];

        imbh_fill_random(&seed, tmp, n);
        for (size_t i = 0; i < n; i++)
                if (p[i] != tmp[i]) {
                        *bad_at = i;
                        return 0;
                }
        return 1;
}

static void
place_obj(k3_case *c, const int oi, const int side, uint64_t *seed)
{
        k3_obj *o = &c->o[oi];
        uint8_t *data = slot_data(c->slot, oi);
        const imbh_item *it = c->it0;

        o->side = side;
        if (side == S_END) {
                const size_t pad = (o->align - o->size % o->align) % o->align;

                o->cur = data + DATA_SZ - pad - o->size;
                o->flush = pad == 0;
        } else if (side == S_START) {
                o->cur = data;
                o->flush = 1;
        } else {
                size_t mis = 0;

                if (o->align == 1)
                        mis = oi == O_SRC ? (size_t) it->salign
                                          : oi == O_DST ? (size_t) it->dalign : 0;
                o->cur = data + MID_OFF + mis;
                o->flush = 0;
        }
        o->lo = (size_t) (o->cur - data) < NEIGH ? (size_t) (o->cur - data) : NEIGH;
        const size_t above = (size_t) (data + DATA_SZ - (o->cur + o->size));

        o->hi = above < NEIGH ? above : NEIGH;
        o->fill = imbh_splitmix64(seed);
        fill_neigh(o->cur - o->lo, o->lo, o->fill);
        fill_neigh(o->cur + o->size, o->hi, o->fill ^ 0x5555);
        memcpy(o->cur, o->init, o->size);
}

/* layout: side of every object; `only` >= 0: just that object on `side`, the rest mid */
static void
place_case(k3_case *c, const int side, const int only, uint64_t *seed)
{
        for (int i = 0; i < O_NUM; i++)
                if (c->o[i].present)
                        place_obj(c, i, (only < 0 || only == i) ? side : S_MID, seed);
        if (c->it0->cipher == IMB_CIPHER_DES3 && c->o[O_ENC].present) {
                const void *p[3] = { c->o[O_KS0].cur, c->o[O_KS1].cur, c->o[O_KS2].cur };

                memcpy(c->o[O_ENC].cur, p, sizeof(p));
                memcpy(c->ksptr_expect, p, sizeof(p));
        }
}

static uint8_t *
reloc(const k3_case *c, const void *ptr)
{
        const uint8_t *p = ptr;

        if (p == NULL)
                return NULL;
        for (int i = 0; i < O_NUM; i++) {
                const k3_obj *o = &c->o[i];

                if (o->present && o->size != 0 && p >= o->orig && p < o->orig + o->size)
                        return o->cur + (p - o->orig);
        }
        for (int i = 0; i < O_NUM; i++) {
                const k3_obj *o = &c->o[i];

                if (o->present && o->size == 0 && p == o->orig)
                        return o->cur;
        }
        /* one past the end of the source (empty range at the very end) */
        if (c->o[O_SRC].present && p == c->o[O_SRC].orig + c->o[O_SRC].size)
                return c->o[O_SRC].cur + c->o[O_SRC].size;
        if (c->o[O_DST].present && p == c->o[O_DST].orig + c->o[O_DST].size)
                return c->o[O_DST].cur + c->o[O_DST].size;
        return (uint8_t *) (uintptr_t) p;
}

#define RL(c, p) ((void *) reloc((c), (p)))

static void
patch_job(IMB_JOB *job, const k3_case *c)
{
        const uint8_t *osrc = job->src;

        job->src = RL(c, job->src);
        /* in place: dst was derived from the source pointer */
        job->dst = RL(c, job->dst);
        (void) osrc;
        job->iv = RL(c, job->iv);
        job->enc_keys = RL(c, job->enc_keys);
        job->dec_keys = RL(c, job->dec_keys);
        job->auth_tag_output = RL(c, job->auth_tag_output);
        if (job->cipher_mode == IMB_CIPHER_CBCS_1_9)
                job->cipher_fields.CBCS.next_iv = RL(c, job->cipher_fields.CBCS.next_iv);
        /* hash specific union: three 8-byte words, pointers are recognised by their range */
        uint64_t w[3];

        memcpy(w, &job->u, sizeof(w));
        for (int i = 0; i < 3; i++)
                if (w[i] > 0x10000)
                        w[i] = (uint64_t) (uintptr_t) reloc(c, (const void *) (uintptr_t) w[i]);
        memcpy(&job->u, w, sizeof(w));
}

/* ========================================================================= */
/* fault handling */

static sigjmp_buf g_jb;
static volatile sig_atomic_t g_armed;
static volatile uintptr_t g_fault_addr, g_fault_rip;
static volatile int g_fault_sig, g_fault_write;

static void
on_fault(int sig, siginfo_t *si, void *ucv)
{
        ucontext_t *uc = ucv;

        if (!g_armed) {
                signal(sig, SIG_DFL);
                raise(sig);
                return;
        }
        g_fault_sig = sig;
        g_fault_addr = (uintptr_t) si->si_addr;
        g_fault_rip = (uintptr_t) uc->uc_mcontext.gregs[REG_RIP];
        g_fault_write = (uc->uc_mcontext.gregs[REG_ERR] & 2) != 0;
        g_armed = 0;
        siglongjmp(g_jb, 1);
}

static void
install_handlers(void)
{
        static uint8_t altstack[128 * 1024];
        const int sigs[] = { SIGSEGV, SIGBUS, SIGILL, SIGFPE, SIGALRM };
        stack_t ss = { .ss_sp = altstack, .ss_size = sizeof(altstack), .ss_flags = 0 };
        struct sigaction sa;

        sigaltstack(&ss, NULL);
        memset(&sa, 0, sizeof(sa));
        sa.sa_sigaction = on_fault;
        sa.sa_flags = SA_ONSTACK | SA_SIGINFO | SA_NODEFER;
        sigemptyset(&sa.sa_mask);
        for (size_t i = 0; i < IMB_DIM(sigs); i++)
                sigaction(sigs[i], &sa, NULL);
}

static void
rip_text(char *buf, const size_t n, const uintptr_t rip)
{
        Dl_info di;

        if (rip != 0 && dladdr((void *) rip, &di) != 0 && di.dli_fname != NULL) {
                const char *b = strrchr(di.dli_fname, '/');

                snprintf(buf, n, "%s+0x%lx", b ? b + 1 : di.dli_fname,
                         (unsigned long) (rip - (uintptr_t) di.dli_fbase));
        } else {
                snprintf(buf, n, "0x%lx", (unsigned long) rip);
        }
}

/* ========================================================================= */
/* bookkeeping */

#define MAX_SUITES 512
typedef struct {
        int cipher, hash;
        long items, accepted, rejected, toolarge, runs, jobs, gjobs, fails;
        long flush[O_NUM][3];
} k3_suite;
static k3_suite g_suites[MAX_SUITES];
static int g_nsuites;
static long g_total_runs, g_total_jobs, g_total_fail, g_fail_printed;
static long g_max_fail_lines = 400;
static const imbh_variant *g_var;
static int g_reinit_count;
static int g_xprop;
static long g_total_xprop, g_xprop_printed;
#define SIG_SLOTS    8192
#define FAIL_PER_SIG 12
static uint64_t g_sig_hash[SIG_SLOTS];
static unsigned g_sig_count[SIG_SLOTS];

static int
suite_of(const int cipher, const int hash)
{
        for (int i = 0; i < g_nsuites; i++)
                if (g_suites[i].cipher == cipher && g_suites[i].hash == hash)
                        return i;
        if (g_nsuites == MAX_SUITES)
                return 0;
        g_suites[g_nsuites].cipher = cipher;
        g_suites[g_nsuites].hash = hash;
        return g_nsuites++;
}

typedef struct {
        int ep, inplace, side, only, batch;
        const char *layout;
} k3_ctx;

static void fail(const k3_case *c, const k3_ctx *x, const char *kind, const char *obj,
                 const char *fmt, ...) __attribute__((format(printf, 5, 6)));

static void
fail(const k3_case *c, const k3_ctx *x, const char *kind, const char *obj, const char *fmt, ...)
{
        va_list ap;
        char detail[400];

        va_start(ap, fmt);
        vsnprintf(detail, sizeof(detail), fmt, ap);
        va_end(ap);
        if (g_xprop) { /* co-scheduled result != single result: property C04, not C07 */
                /* contract checks are repeated (and reported) by the recording pass */
                if (strstr(kind, "differs") == NULL && strcmp(kind, "status") != 0)
                        return;
                g_total_xprop++;
                if (g_xprop_printed++ < 40)
                        printf("XPROP id=%ld var=%s ep=%d suite=%d/%d dir=%d n=%d kind=%s obj=%s %s\n",
                               c->it0->id, g_var->name, x->ep, c->it0->cipher, c->it0->hash,
                               c->it0->dir, x->batch, kind, obj, detail);
                return;
        }
        g_total_fail++;
        g_suites[c->suite].fails++;
        /* at most FAIL_PER_SIG lines per (suite, kind, object): one noisy defect must not hide another */
        {
                char key[96];
                uint64_t h = UINT64_C(0xcbf29ce484222325);

                snprintf(key, sizeof(key), "%d/%d|%s|%s|%d", c->it0->cipher, c->it0->hash, kind, obj,
                         x->batch > 1);
                for (const char *p = key; *p; p++)
                        h = (h ^ (uint8_t) *p) * UINT64_C(0x100000001b3);
                size_t slot = (size_t) (h % SIG_SLOTS);

                while (g_sig_hash[slot] != 0 && g_sig_hash[slot] != h)
                        slot = (slot + 1) % SIG_SLOTS;
                g_sig_hash[slot] = h;
                if (++g_sig_count[slot] > FAIL_PER_SIG)
                        return;
        }
        if (g_fail_printed >= g_max_fail_lines)
                return;
        g_fail_printed++;
        printf("FAIL id=%ld var=%s ep=%d suite=%d/%d dir=%d mode=%s n=%d layout=%s inplace=%d "
               "kind=%s obj=%s %s\n",
               c->it0->id, g_var->name, x->ep, c->it0->cipher, c->it0->hash, c->it0->dir,
               x->batch > 1 ? "batch" : "single", x->batch, x->layout, x->inplace, kind, obj,
               detail);
}

/* ========================================================================= */
/* running */

static void
reinit_mgr(void)
{
        IMB_MGR *mgr = g_var->mgr;

        if (g_var->init == 0)
                init_mb_mgr_sse(mgr);
        else if (g_var->init == 1)
                init_mb_mgr_avx2(mgr);
        else
                init_mb_mgr_avx512(mgr);
        g_reinit_count++;
}

static void
k3_job_api(IMB_MGR *mgr, const int nocheck, k3_case **cs, const int n)
{
        IMB_JOB *job;

        for (int i = 0; i < n; i++) {
                job = IMB_GET_NEXT_JOB(mgr);
                imbh_fill_job(job, cs[i]->r);
                patch_job(job, cs[i]);
                job = nocheck ? IMB_SUBMIT_JOB_NOCHECK(mgr) : IMB_SUBMIT_JOB(mgr);
                cs[i]->r->err = imb_get_errno(mgr);
                while (job != NULL) {
                        collect(job);
                        job = IMB_GET_COMPLETED_JOB(mgr);
                }
        }
        while ((job = IMB_FLUSH_JOB(mgr)) != NULL)
                collect(job);
}

static void
k3_burst_api(IMB_MGR *mgr, const int nocheck, k3_case **cs, const int n)
{
        IMB_JOB *jobs[IMB_MAX_BURST_SIZE];
        const uint32_t got = IMB_GET_NEXT_BURST(mgr, (uint32_t) n, jobs);

        if (got != (uint32_t) n)
                return; /* runs stay "not done" */
        for (int i = 0; i < n; i++) {
                imbh_fill_job(jobs[i], cs[i]->r);
                patch_job(jobs[i], cs[i]);
                imb_set_session(mgr, jobs[i]);
        }
        uint32_t done = nocheck ? IMB_SUBMIT_BURST_NOCHECK(mgr, (uint32_t) n, jobs)
                                : IMB_SUBMIT_BURST(mgr, (uint32_t) n, jobs);
        const int err = imb_get_errno(mgr);

        if (done == 0 && err != 0) { /* rejected: all jobs here were accepted by ep 0 before */
                for (int i = 0; i < n; i++) {
                        cs[i]->r->done = 1;
                        cs[i]->r->status = (int) jobs[0]->status;
                        cs[i]->r->err = err;
                }
                /* give the slots back: an empty flush keeps the ring consistent */
                while (IMB_FLUSH_BURST(mgr, IMB_MAX_BURST_SIZE, jobs) != 0)
                        ;
                return;
        }
        do {
                for (uint32_t i = 0; i < done; i++)
                        collect(jobs[i]);
        } while ((done = IMB_FLUSH_BURST(mgr, IMB_MAX_BURST_SIZE, jobs)) != 0);
}

static void
k3_sync_api(IMB_MGR *mgr, const int nocheck, k3_case **cs, const int n)
{
        static IMB_JOB jobs[MAX_JOBS];
        const imbh_item *it0 = &cs[0]->it_oop;
        const int cls = sync_class(it0);
        const IMB_CIPHER_MODE cm = (IMB_CIPHER_MODE) it0->cipher;
        const IMB_CIPHER_DIRECTION d = (IMB_CIPHER_DIRECTION) it0->dir;
        const IMB_KEY_SIZE_BYTES ks = (IMB_KEY_SIZE_BYTES) it0->key.n;
        const IMB_HASH_ALG h = (IMB_HASH_ALG) it0->hash;

        for (int i = 0; i < n; i++) {
                imbh_fill_job(&jobs[i], cs[i]->r);
                patch_job(&jobs[i], cs[i]);
        }
        if (cls == 1) {
                if (nocheck)
                        IMB_SUBMIT_CIPHER_BURST_NOCHECK(mgr, jobs, n, cm, d, ks);
                else
                        IMB_SUBMIT_CIPHER_BURST(mgr, jobs, n, cm, d, ks);
        } else if (cls == 2) {
                if (nocheck)
                        IMB_SUBMIT_HASH_BURST_NOCHECK(mgr, jobs, n, h);
                else
                        IMB_SUBMIT_HASH_BURST(mgr, jobs, n, h);
        } else {
                if (nocheck)
                        IMB_SUBMIT_AEAD_BURST_NOCHECK(mgr, jobs, n, cm, d, ks);
                else
                        IMB_SUBMIT_AEAD_BURST(mgr, jobs, n, cm, d, ks);
        }
        const int err = imb_get_errno(mgr);

        for (int i = 0; i < n; i++) {
                cs[i]->r->done = 1;
                cs[i]->r->status = (int) jobs[i].status;
                cs[i]->r->err = err;
        }
}

/* direct API with relocated objects (same call sequences as imbh.c run_direct) */
static void
k3_direct(IMB_MGR *mgr, k3_case *c, const int inplace)
{
        const imbh_item *it = inplace ? &c->it_ip : &c->it_oop;
        imbh_run *r = c->r;
        struct imbh_keys *k = r->keys;
        const int cm = it->cipher, h = it->hash, enc = it->dir == IMB_DIR_ENCRYPT;
        uint8_t *src = RL(c, r->src);
        uint8_t *dst = inplace ? src + c->doff_ip : (c->o[O_DST].present ? c->o[O_DST].cur : NULL);
        const uint8_t *csrc = src + (cipher_off_in_bits(cm) ? 0 : it->coff);
        const uint8_t *hsrc = src + it->hoff;
        uint8_t *iv = RL(c, r->iv), *aiv = RL(c, r->aiv), *aad = RL(c, r->aad);
        uint8_t *tag = RL(c, r->tag);
        void *ctx = c->o[O_CTX].present ? c->o[O_CTX].cur : NULL;

        while (IMB_FLUSH_JOB(mgr) != NULL)
                ;
        if (cm == IMB_CIPHER_GCM) {
                const struct gcm_key_data *gk = RL(c, &k->gcm);
                const size_t kn = it->key.n;

                if (it->iv.n == 12) {
                        aes_gcm_enc_dec_t f =
                                kn == 16 ? (enc ? mgr->gcm128_enc : mgr->gcm128_dec)
                                : kn == 24 ? (enc ? mgr->gcm192_enc : mgr->gcm192_dec)
                                           : (enc ? mgr->gcm256_enc : mgr->gcm256_dec);
                        f(gk, ctx, dst, csrc, it->clen, iv, aad, it->aad.n, tag, it->tag);
                } else {
                        aes_gcm_init_var_iv_t fi = kn == 16   ? mgr->gcm128_init_var_iv
                                                   : kn == 24 ? mgr->gcm192_init_var_iv
                                                              : mgr->gcm256_init_var_iv;
                        aes_gcm_enc_dec_update_t fu =
                                kn == 16 ? (enc ? mgr->gcm128_enc_update : mgr->gcm128_dec_update)
                                : kn == 24
                                        ? (enc ? mgr->gcm192_enc_update : mgr->gcm192_dec_update)
                                        : (enc ? mgr->gcm256_enc_update : mgr->gcm256_dec_update);
                        aes_gcm_enc_dec_finalize_t ff =
                                kn == 16 ? (enc ? mgr->gcm128_enc_finalize
                                                : mgr->gcm128_dec_finalize)
                                : kn == 24 ? (enc ? mgr->gcm192_enc_finalize
                                                  : mgr->gcm192_dec_finalize)
                                           : (enc ? mgr->gcm256_enc_finalize
                                                  : mgr->gcm256_dec_finalize);
                        fi(gk, ctx, iv, it->iv.n, aad, it->aad.n);
                        fu(gk, ctx, dst, csrc, it->clen);
                        ff(gk, ctx, tag, it->tag);
                }
        } else if (cm == IMB_CIPHER_CHACHA20_POLY1305) {
                const void *key = RL(c, k->raw_c);

                IMB_CHACHA20_POLY1305_INIT(mgr, key, ctx, iv, aad, it->aad.n);
                if (enc) {
                        IMB_CHACHA20_POLY1305_ENC_UPDATE(mgr, key, ctx, dst, csrc, it->clen);
                        IMB_CHACHA20_POLY1305_ENC_FINALIZE(mgr, ctx, tag, it->tag);
                } else {
                        IMB_CHACHA20_POLY1305_DEC_UPDATE(mgr, key, ctx, dst, csrc, it->clen);
                        IMB_CHACHA20_POLY1305_DEC_FINALIZE(mgr, ctx, tag, it->tag);
                }
        } else if (cm == IMB_CIPHER_ZUC_EEA3) {
                IMB_ZUC_EEA3_1_BUFFER(mgr, RL(c, k->raw_c), iv, csrc, dst, (uint32_t) it->clen);
        } else if (cm == IMB_CIPHER_SNOW3G_UEA2_BITLEN) {
                const snow3g_key_schedule_t *ks = RL(c, k->snow3g_c);

                if ((it->coff | it->clen) & 7)
                        IMB_SNOW3G_F8_1_BUFFER_BIT(mgr, ks, iv, src, dst, (uint32_t) it->clen,
                                                   (uint32_t) it->coff);
                else
                        IMB_SNOW3G_F8_1_BUFFER(mgr, ks, iv, src + it->coff / 8, dst,
                                               (uint32_t) (it->clen / 8));
        } else if (cm == IMB_CIPHER_KASUMI_UEA1_BITLEN) {
                const kasumi_key_sched_t *ks = RL(c, &k->kas_c);
                uint64_t iv64;

                memcpy(&iv64, iv, sizeof(iv64));
                if ((it->coff | it->clen) & 7)
                        IMB_KASUMI_F8_1_BUFFER_BIT(mgr, ks, iv64, src, dst, (uint32_t) it->clen,
                                                   (uint32_t) it->coff);
                else
                        IMB_KASUMI_F8_1_BUFFER(mgr, ks, iv64, src + it->coff / 8, dst,
                                               (uint32_t) (it->clen / 8));
        } else if (cm == IMB_CIPHER_CFB) {
                if (it->key.n == 16)
                        IMB_AES128_CFB_ONE(mgr, dst, csrc, iv, RL(c, k->enc), it->clen);
                else
                        IMB_AES256_CFB_ONE(mgr, dst, csrc, iv, RL(c, k->enc), it->clen);
        } else if (sha_digest_size(h) != 0) {
                hash_fn_t f = h == IMB_AUTH_SHA_1     ? mgr->sha1
                              : h == IMB_AUTH_SHA_224 ? mgr->sha224
                              : h == IMB_AUTH_SHA_256 ? mgr->sha256
                              : h == IMB_AUTH_SHA_384 ? mgr->sha384
                                                      : mgr->sha512;
                f(hsrc, it->hlen, tag);
        } else if (is_crc_hash(h)) {
                const uint32_t crc = crc_direct_fn(mgr, h)(hsrc, it->hlen);

                memcpy(tag, &crc, sizeof(crc));
        } else if (h == IMB_AUTH_ZUC_EIA3_BITLEN) {
                IMB_ZUC_EIA3_1_BUFFER(mgr, RL(c, k->raw_a), aiv, hsrc, (uint32_t) it->hlen,
                                      (uint32_t *) (void *) tag);
        } else if (h == IMB_AUTH_SNOW3G_UIA2_BITLEN) {
                IMB_SNOW3G_F9_1_BUFFER(mgr, RL(c, k->snow3g_a), aiv, hsrc, it->hlen, tag);
        } else if (h == IMB_AUTH_KASUMI_UIA1) {
                IMB_KASUMI_F9_1_BUFFER(mgr, RL(c, &k->kas_a), hsrc, (uint32_t) it->hlen, tag);
        } else if (h == IMB_AUTH_GHASH) {
                memcpy(tag, aiv, it->tag);
                IMB_GHASH(mgr, RL(c, &k->gmac), hsrc, it->hlen, tag, it->tag);
        } else {
                const struct gcm_key_data *gk = RL(c, &k->gmac);

                if (h == IMB_AUTH_AES_GMAC_128) {
                        IMB_AES128_GMAC_INIT(mgr, gk, ctx, aiv, it->aiv.n);
                        IMB_AES128_GMAC_UPDATE(mgr, gk, ctx, hsrc, it->hlen);
                        IMB_AES128_GMAC_FINALIZE(mgr, gk, ctx, tag, it->tag);
                } else if (h == IMB_AUTH_AES_GMAC_192) {
                        IMB_AES192_GMAC_INIT(mgr, gk, ctx, aiv, it->aiv.n);
                        IMB_AES192_GMAC_UPDATE(mgr, gk, ctx, hsrc, it->hlen);
                        IMB_AES192_GMAC_FINALIZE(mgr, gk, ctx, tag, it->tag);
                } else {
                        IMB_AES256_GMAC_INIT(mgr, gk, ctx, aiv, it->aiv.n);
                        IMB_AES256_GMAC_UPDATE(mgr, gk, ctx, hsrc, it->hlen);
                        IMB_AES256_GMAC_FINALIZE(mgr, gk, ctx, tag, it->tag);
                }
        }
        r->err = imb_get_errno(mgr);
        r->status = r->err == 0 ? IMB_STATUS_COMPLETED : IMB_STATUS_INVALID_ARGS;
        r->done = 1;
}

/* which (job, object) does an address belong to?  returns 1 when inside the arena */
static int
attribute_fault(const uintptr_t a, int *job, int *obj, int *guard)
{
        const uintptr_t base = (uintptr_t) g_arena;

        if (a < base || a >= base + g_arena_sz)
                return 0;
        const size_t pg = (a - base) / PG;
        const size_t slot = pg / SLOT_PG, in = pg % SLOT_PG;

        *job = (int) (slot / MAX_OBJ);
        *obj = (int) (slot % MAX_OBJ);
        *guard = in == 0 ? -1 : in == SLOT_PG - 1 ? 1 : 0;
        return 1;
}

static uint8_t
dst_mask(const k3_case *c, const size_t i)
{
        uint8_t m = 0xff;

        if (i < c->d_from || i >= c->d_to)
                return 0;
        if (c->cbcs && (i / 16) % 10 != 0)
                return 0; /* CBCS 1:9 pattern: one block ciphered, nine blocks left alone */
        if (i == c->d_from)
                m &= c->d_mf;
        if (i == c->d_to - 1)
                m &= c->d_ml;
        return m;
}

static int
in_src_w(const k3_case *c, const size_t i)
{
        for (int k = 0; k < c->nsw; k++)
                if (i >= c->sw_from[k] && i < c->sw_to[k])
                        return 1;
        return 0;
}

/* Checks of one case after a run.  is_ref: record the outcome instead of comparing. */
static void
check_case(k3_case *c, const k3_ctx *x, const int is_ref)
{
        const imbh_item *it = c->it0;
        imbh_run *r = c->r;
        const k3_obj *os = &c->o[O_SRC];
        const size_t n = it->msg.n;
        size_t bad;

        if (!r->done) {
                fail(c, x, "lost", "-", "job never came back");
                return;
        }
        if (is_ref) {
                c->ref.status = r->status;
                c->ref.valid = 1;
        } else if (r->status != c->ref.status) {
                fail(c, x, "status", "-", "status=%d errno=%d reference=%d", r->status, r->err,
                     c->ref.status);
                return;
        }
        /* canaries and read-only objects */
        for (int i = 0; i < O_NUM; i++) {
                const k3_obj *o = &c->o[i];

                if (!o->present)
                        continue;
                if (!check_neigh(o->cur - o->lo, o->lo, o->fill, &bad))
                        fail(c, x, "canary", o->name, "side=%s where=below off=-%zu objsize=%zu",
                             side_name[o->side], o->lo - bad, o->size);
                if (!check_neigh(o->cur + o->size, o->hi, o->fill ^ 0x5555, &bad))
                        fail(c, x, "canary", o->name, "side=%s where=above off=+%zu objsize=%zu",
                             side_name[o->side], bad, o->size);
                if (i == O_ENC && it->cipher == IMB_CIPHER_DES3) {
                        if (memcmp(o->cur, c->ksptr_expect, sizeof(c->ksptr_expect)) != 0)
                                fail(c, x, "input_modified", o->name, "side=%s",
                                     side_name[o->side]);
                } else if (!o->writable && !(i == O_SRC && x->inplace)) {
                        if (memcmp(o->cur, o->init, o->size) != 0) {
                                size_t at = 0;

                                while (o->cur[at] == o->init[at])
                                        at++;
                                fail(c, x, i == O_SRC ? "src_changed" : "input_modified", o->name,
                                     "side=%s off=%zu objsize=%zu", side_name[o->side], at,
                                     o->size);
                        }
                }
        }
        if (r->status != IMB_STATUS_COMPLETED)
                return;

        /* destination */
        const uint8_t *d = NULL, *dinit = NULL;

        if (x->inplace) {
                d = os->cur + c->doff_ip;
                dinit = os->init + c->doff_ip;
        } else if (c->o[O_DST].present) {
                d = c->o[O_DST].cur;
                dinit = c->o[O_DST].init;
        }
        if (d != NULL && c->d_to != 0) {
                int outside_reported = 0;

                for (size_t i = 0; i < c->d_to; i++) {
                        const uint8_t m = dst_mask(c, i);

                        if (((d[i] ^ dinit[i]) & (uint8_t) ~m) && !outside_reported) {
                                fail(c, x, "dst_outside_range", "dst",
                                     "off=%zu mask=%02x before=%02x after=%02x range=[%zu,%zu)", i,
                                     m, dinit[i], d[i], c->d_from, c->d_to);
                                outside_reported = 1;
                        }
                        if (is_ref)
                                c->ref.dst[i] = d[i] & m;
                        else if ((d[i] & m) != c->ref.dst[i]) {
                                fail(c, x, "dst_differs", "dst",
                                     "off=%zu got=%02x reference=%02x len=%zu", i, d[i] & m,
                                     c->ref.dst[i], c->d_to);
                                break;
                        }
                }
        }
        /* source after the job */
        if (x->inplace) {
                for (size_t i = 0; i < n; i++) {
                        uint8_t m = 0;

                        if (i >= c->doff_ip && i - c->doff_ip < c->d_to)
                                m = dst_mask(c, i - c->doff_ip);
                        if (in_src_w(c, i))
                                m = 0xff;
                        if ((os->cur[i] ^ os->init[i]) & (uint8_t) ~m) {
                                fail(c, x, "src_outside_range", "src",
                                     "off=%zu mask=%02x before=%02x after=%02x range=[%zu,%zu)", i, m, os->init[i],
                                     os->cur[i], c->doff_ip + c->d_from, c->doff_ip + c->d_to);
                                break;
                        }
                }
                if (c->ip_only) {
                        if (is_ref)
                                memcpy(c->ref.src, os->cur, n);
                        else if (memcmp(c->ref.src, os->cur, n) != 0) {
                                size_t at = 0;

                                while (c->ref.src[at] == os->cur[at])
                                        at++;
                                fail(c, x, "src_differs", "src", "off=%zu got=%02x reference=%02x",
                                     at, os->cur[at], c->ref.src[at]);
                        }
                }
        }
        /* tag */
        if (c->o[O_TAG].present) {
                const k3_obj *o = &c->o[O_TAG];

                uint8_t *rt = c->ref.tag;
                int record = is_ref;

                if (x->inplace && c->tag_ip_sep) {
                        rt = c->ref_ip_tag;
                        record = !c->ref_ip_valid;
                        c->ref_ip_valid = 1;
                }
                if (record)
                        memcpy(rt, o->cur, o->size);
                else if (memcmp(rt, o->cur, c->tag_cmp < o->size ? c->tag_cmp : o->size)) {
                        size_t at = 0;

                        while (rt[at] == o->cur[at])
                                at++;
                        fail(c, x, "tag_differs", "tag", "off=%zu got=%02x reference=%02x taglen=%zu",
                             at, o->cur[at], rt[at], o->size);
                }
        }
        if (c->o[O_NIV].present) {
                if (is_ref)
                        memcpy(c->ref.niv, c->o[O_NIV].cur, 16);
                else if (memcmp(c->ref.niv, c->o[O_NIV].cur, 16) != 0)
                        fail(c, x, "next_iv_differs", "next_iv", "-");
        }
}

/*
 * One run: n cases, objects already placed.  Returns 0, or 1 after a fault /
 * hang (reported, manager re-initialised).
 */
static int
run_placed(k3_case **cs, const int n, const k3_ctx *x)
{
        IMB_MGR *mgr = g_var->mgr;
        volatile int faulted = 0;

        for (int i = 0; i < n; i++) {
                cs[i]->r->it = x->inplace ? &cs[i]->it_ip : &cs[i]->it_oop;
                cs[i]->r->done = 0;
                cs[i]->r->status = cs[i]->r->err = 0;
                /* in place: the dst object is not used; keep it out of the relocation table */
        }
        g_total_runs++;
        g_total_jobs += n;
        for (int i = 0; i < n; i++) {
                k3_suite *s = &g_suites[cs[i]->suite];

                int any = 0;

                s->runs++;
                s->jobs++;
                for (int o = 0; o < O_NUM; o++)
                        if (cs[i]->o[o].present && !(o == O_DST && x->inplace) &&
                            !(o == O_CTX && x->ep != IMBH_EP_DIRECT)) {
                                s->flush[o][cs[i]->o[o].flush ? cs[i]->o[o].side : S_MID]++;
                                any |= cs[i]->o[o].flush && cs[i]->o[o].side != S_MID;
                        }
                s->gjobs += any;
        }
        alarm(20);
        if (sigsetjmp(g_jb, 1) == 0) {
                g_armed = 1;
                switch (x->ep) {
                case IMBH_EP_JOB:
                case IMBH_EP_JOB_NOCHECK:
                        k3_job_api(mgr, x->ep == IMBH_EP_JOB_NOCHECK, cs, n);
                        break;
                case IMBH_EP_BURST:
                case IMBH_EP_BURST_NOCHECK:
                        k3_burst_api(mgr, x->ep == IMBH_EP_BURST_NOCHECK, cs, n);
                        break;
                case IMBH_EP_SYNC:
                case IMBH_EP_SYNC_NOCHECK:
                        k3_sync_api(mgr, x->ep == IMBH_EP_SYNC_NOCHECK, cs, n);
                        break;
                default:
                        for (int i = 0; i < n; i++)
                                k3_direct(mgr, cs[i], x->inplace);
                        break;
                }
                g_armed = 0;
        } else {
                faulted = 1;
        }
        alarm(0);
        if (faulted) {
                int job = -1, obj = -1, guard = 0;
                char rip[128];
                const uintptr_t a = g_fault_addr;

                rip_text(rip, sizeof(rip), g_fault_rip);
                if (g_fault_sig == SIGALRM) {
                        fail(cs[0], x, "hang", "-", "no return within 20 s rip=%s", rip);
                } else if (attribute_fault(a, &job, &obj, &guard)) {
                        k3_case *fc = cs[0];

                        for (int i = 0; i < n; i++)
                                if (cs[i]->slot == job)
                                        fc = cs[i];
                        const k3_obj *o = &fc->o[obj];
                        const long rel_start = (long) (a - (uintptr_t) o->cur);
                        const long rel_end = (long) (a - (uintptr_t) (o->cur + o->size));

                        fail(fc, x, "fault", o->present ? o->name : obj_id_name[obj],
                             "sig=%d access=%s side=%s guard=%s addr=0x%lx off_from_start=%ld "
                             "off_past_end=%ld objsize=%zu rip=%s",
                             g_fault_sig, g_fault_write ? "write" : "read",
                             o->present ? side_name[o->side] : "?",
                             guard < 0 ? "before" : guard > 0 ? "after" : "data",
                             (unsigned long) a, rel_start, rel_end, o->size, rip);
                } else {
                        fail(cs[0], x, "fault", "-", "sig=%d access=%s addr=0x%lx (outside the arena) "
                             "rip=%s",
                             g_fault_sig, g_fault_write ? "write" : "read", (unsigned long) a, rip);
                }
                reinit_mgr();
                return 1;
        }
        return 0;
}

/* ========================================================================= */
/* per item schedule */

static uint64_t g_seed = 1;
static int g_full_eps, g_eps[IMBH_NUM_EPS], g_neps, g_batch = 1, g_no_single;

static int
ep_ok(const int ep, const k3_case *c)
{
        if (!imbh_ep_supports(ep, &c->it_oop))
                return 0;
        return 1;
}

/* returns 1 when the item is accepted (reference run completed) */
static int
reference_run(k3_case *c, uint64_t *seed)
{
        k3_ctx x = { .ep = IMBH_EP_JOB, .inplace = c->ip_only, .side = S_MID, .only = -1,
                     .batch = 1, .layout = "reference" };

        place_case(c, S_MID, -1, seed);
        if (run_placed(&c, 1, &x) != 0)
                return -1;
        if (!c->r->done || c->r->status != IMB_STATUS_COMPLETED) {
                /* direct API calls the job API has no equivalent for (CFB, one partial block) */
                int have5 = 0;

                for (int e = 0; e < g_neps; e++)
                        have5 |= g_eps[e] == IMBH_EP_DIRECT;
                if (!have5 || c->it0->cipher != IMB_CIPHER_CFB || !direct_supports(&c->it_oop))
                        return 0;
                c->direct_only = 1;
                x.ep = IMBH_EP_DIRECT;
                place_case(c, S_MID, -1, seed);
                if (run_placed(&c, 1, &x) != 0)
                        return -1;
                if (!c->r->done || c->r->status != IMB_STATUS_COMPLETED)
                        return 0;
        }
        check_case(c, &x, 1);
        return 1;
}

static void
one_run(k3_case *c, const int ep, const int inplace, const int side, const int only,
        const char *layout, uint64_t *seed)
{
        k3_ctx x = { .ep = ep, .inplace = inplace, .side = side, .only = only, .batch = 1,
                     .layout = layout };
        char lname[64];

        if (only >= 0) {
                snprintf(lname, sizeof(lname), "%s:%s", layout, c->o[only].name);
                x.layout = lname;
        }
        place_case(c, side, only, seed);
        if (run_placed(&c, 1, &x) == 0)
                check_case(c, &x, 0);
}

static uint64_t
mix_seed(const uint64_t a, const uint64_t b)
{
        uint64_t st = a * 0x9E3779B97F4A7C15ull ^ (b + 0x632BE59BD9B4E019ull);

        imbh_splitmix64(&st);
        return imbh_splitmix64(&st);
}

static void
single_schedule(k3_case *c, uint64_t *seed)
{
        for (int e = 0; e < g_neps; e++) {
                const int ep = g_eps[e];
                const int full = ep == IMBH_EP_JOB || g_full_eps;

                if (!ep_ok(ep, c) || (c->direct_only && ep != IMBH_EP_DIRECT))
                        continue;
                if (!c->ip_only) {
                        one_run(c, ep, 0, S_MID, -1, "poison_a", seed);
                        if (full)
                                one_run(c, ep, 0, S_MID, -1, "poison_b", seed);
                        one_run(c, ep, 0, S_END, -1, "all_end", seed);
                        one_run(c, ep, 0, S_START, -1, "all_start", seed);
                        if (full)
                                for (int o = 0; o < O_NUM; o++)
                                        if (c->o[o].present &&
                                            !(o == O_CTX && ep != IMBH_EP_DIRECT)) {
                                                one_run(c, ep, 0, S_END, o, "one_end", seed);
                                                one_run(c, ep, 0, S_START, o, "one_start", seed);
                                        }
                }
                if (!c->oop_only) {
                        one_run(c, ep, 1, S_MID, -1, "inplace_mid", seed);
                        one_run(c, ep, 1, S_END, -1, "inplace_all_end", seed);
                        one_run(c, ep, 1, S_START, -1, "inplace_all_start", seed);
                        if (full && c->ip_only)
                                for (int o = 0; o < O_NUM; o++)
                                        if (c->o[o].present && o != O_DST && o != O_CTX) {
                                                one_run(c, ep, 1, S_END, o, "inplace_one_end", seed);
                                                one_run(c, ep, 1, S_START, o, "inplace_one_start",
                                                        seed);
                                        }
                }
        }
}

static int
batch_select(k3_case **cs, const int n, const int ep, const int inplace, k3_case **act)
{
        int na = 0;

        for (int i = 0; i < n; i++) {
                if (inplace ? cs[i]->oop_only : cs[i]->ip_only)
                        continue;
                if (cs[i]->direct_only)
                        continue;
                if ((ep == IMBH_EP_SYNC || ep == IMBH_EP_SYNC_NOCHECK) && na > 0 &&
                    !same_sync_group(&act[0]->it_oop, &cs[i]->it_oop))
                        continue;
                act[na++] = cs[i];
        }
        return na;
}

/*
 * Co-scheduled jobs.  The reference is the same batch with ordinary placement
 * (whether a job's result depends on the jobs it shares lanes with is property
 * C04; a difference to the single-job result is printed as XPROP, not FAIL).
 */
static void
batch_schedule(k3_case **cs, const int n, uint64_t *seed)
{
        static const struct {
                int inplace, side;
                const char *layout;
        } lay[] = { { 0, S_END, "batch_all_end" },
                    { 0, S_START, "batch_all_start" },
                    { 1, S_END, "batch_inplace_all_end" },
                    { 1, S_START, "batch_inplace_all_start" },
                    { 0, S_MID, "batch_poison" },
                    { 1, S_MID, "batch_inplace_poison" } };

        for (int e = 0; e < g_neps; e++) {
                const int ep = g_eps[e];
                k3_case *act[MAX_JOBS];
                int ok[2] = { 0, 0 };

                if (ep == IMBH_EP_DIRECT || !ep_ok(ep, cs[0]))
                        continue;
                /* batch references: out of place, then in place */
                for (int ip = 0; ip < 2; ip++) {
                        const int na = batch_select(cs, n, ep, ip, act);

                        if (na < 2)
                                continue;
                        k3_ctx x = { .ep = ep, .inplace = ip, .side = S_MID, .only = -1,
                                     .batch = na,
                                     .layout = ip ? "batch_inplace_reference" : "batch_reference" };

                        for (int i = 0; i < na; i++)
                                place_case(act[i], S_MID, -1, seed);
                        if (run_placed(act, na, &x) != 0)
                                continue;
                        ok[ip] = 1;
                        for (int i = 0; i < na; i++) {
                                if (ip == 0 || act[i]->ip_only) {
                                        g_xprop = 1;
                                        check_case(act[i], &x, 0);
                                        g_xprop = 0;
                                        check_case(act[i], &x, 1);
                                        act[i]->ref_ip_valid = 0;
                                } else {
                                        check_case(act[i], &x, 0);
                                }
                        }
                }
                for (size_t l = 0; l < IMB_DIM(lay); l++) {
                        const int na = batch_select(cs, n, ep, lay[l].inplace, act);

                        if (na < 2 || !ok[lay[l].inplace])
                                continue;
                        k3_ctx x = { .ep = ep, .inplace = lay[l].inplace, .side = lay[l].side,
                                     .only = -1, .batch = na, .layout = lay[l].layout };

                        for (int i = 0; i < na; i++)
                                place_case(act[i], lay[l].side, -1, seed);
                        if (run_placed(act, na, &x) == 0)
                                for (int i = 0; i < na; i++)
                                        check_case(act[i], &x, 0);
                }
        }
}

/* ========================================================================= */
/* footprint dump (compared with the extracted Coq contract by c07.py) */

static void
print_footprint(const k3_case *c)
{
        const imbh_item *it = c->it0;

        printf("FP id=%ld view=%d,%d,%d,%d,%zu,%llu,%llu,%llu,%llu,%zu,%llu,%zu,%zu,%zu,%zu,%u,%zu,%zu",
               it->id, it->cipher, it->hash, it->dir, it->order, it->key.n,
               (unsigned long long) it->coff, (unsigned long long) it->clen,
               (unsigned long long) it->hoff, (unsigned long long) it->hlen, it->iv.n,
               (unsigned long long) it->tag, it->aad.n, it->aiv.n, it->akey.n, it->msg.n, c->pli,
               g_snow3g_ks, g_kasumi_ks);
        printf(" objs=");
        int first = 1;

        for (int i = 0; i < O_NUM; i++)
                if (c->o[i].present && i != O_CTX) {
                        printf("%s%s:%zu", first ? "" : ",", obj_id_name[i], c->o[i].size);
                        first = 0;
                }
        if (first)
                printf("-");
        /* write ranges */
        printf(" W=");
        first = 1;
        if (c->d_to > c->d_from) {
                printf("%s:%zu:%zu:%02x:%02x", c->ip_only ? "src" : "dst",
                       c->d_from + (c->ip_only ? c->doff_ip : 0),
                       c->d_to + (c->ip_only ? c->doff_ip : 0), c->d_mf, c->d_ml);
                first = 0;
        }
        for (int k = 0; k < c->nsw; k++) {
                printf("%ssrc:%zu:%zu:ff:ff", first ? "" : ",", c->sw_from[k], c->sw_to[k]);
                first = 0;
        }
        if (c->o[O_TAG].present) {
                printf("%stag:0:%zu:ff:ff", first ? "" : ",", c->o[O_TAG].size);
                first = 0;
        }
        if (c->o[O_NIV].present) {
                printf("%snext_iv:0:16:ff:ff", first ? "" : ",");
                first = 0;
        }
        if (first)
                printf("-");
        printf("\n");
}

/* ========================================================================= */
/* main */

static imbh_item *g_items;
static size_t g_nitems;

static int
load_cases(const char *path)
{
        FILE *f = strcmp(path, "-") == 0 ? stdin : fopen(path, "r");
        char *line = NULL;
        size_t cap = 0;

        if (f == NULL) {
                perror(path);
                return -1;
        }
        while (getline(&line, &cap, f) > 0) {
                const char *p = line;

                while (*p == ' ' || *p == '\t')
                        p++;
                if (*p == 0 || *p == '#' || *p == '\n' || *p == '\r')
                        continue;
                g_items = realloc(g_items, (g_nitems + 1) * sizeof(g_items[0]));
                if (g_items == NULL)
                        exit(2);
                if (imbh_item_parse(p, &g_items[g_nitems]) != 0)
                        fprintf(stderr, "k3_place: item %zu: %s\n", g_nitems,
                                g_items[g_nitems].err);
                g_nitems++;
        }
        free(line);
        if (f != stdin)
                fclose(f);
        return 0;
}

static k3_case *g_pend[MAX_JOBS];
static int g_npend, g_batch_target;

static void
flush_pending(uint64_t *seed)
{
        (void) seed;
        if (g_npend >= 2) {
                uint64_t bs = mix_seed(g_seed ^ 0xB, (uint64_t) g_pend[0]->it0->id);

                batch_schedule(g_pend, g_npend, &bs);
        }
        for (int i = 0; i < g_npend; i++)
                case_free(g_pend[i]);
        g_npend = 0;
}

static void
run_variant(const imbh_variant *v, const int footprint_only)
{
        uint64_t seed = g_seed * 0x9E3779B97F4A7C15ull + 77;

        g_var = v;
        g_snow3g_ks = IMB_SNOW3G_KEY_SCHED_SIZE(v->mgr);
        g_kasumi_ks = IMB_KASUMI_KEY_SCHED_SIZE(v->mgr);
        g_nsuites = 0;
        memset(g_suites, 0, sizeof(g_suites));
        memset(g_sig_hash, 0, sizeof(g_sig_hash));
        memset(g_sig_count, 0, sizeof(g_sig_count));
        g_npend = 0;
        flush_pending(&seed);
        for (size_t at = 0; at < g_nitems; at++) {
                const imbh_item *it = &g_items[at];

                if (it->bad)
                        continue;
                k3_case *c = case_new(v->mgr, it, 0);

                c->suite = suite_of(it->cipher, it->hash);
                k3_suite *s = &g_suites[c->suite];

                s->items++;
                if (c->r->prep_err != 0) {
                        s->rejected++;
                        case_free(c);
                        continue;
                }
                if (!case_fits(c)) {
                        s->toolarge++;
                        case_free(c);
                        continue;
                }
                if (footprint_only) {
                        print_footprint(c);
                        case_free(c);
                        continue;
                }
                seed = mix_seed(g_seed, (uint64_t) it->id);
                const int acc = reference_run(c, &seed);

                if (acc <= 0) {
                        if (acc == 0)
                                s->rejected++;
                        case_free(c);
                        continue;
                }
                s->accepted++;
                if (!g_no_single)
                        single_schedule(c, &seed);
                if (g_batch < 2) {
                        case_free(c);
                        continue;
                }
                /* batches: consecutive accepted items of one suite, direction and key size */
                if (g_npend > 0 &&
                    (g_pend[0]->suite != c->suite || g_pend[0]->it0->dir != c->it0->dir ||
                     g_pend[0]->it0->key.n != c->it0->key.n))
                        flush_pending(&seed);
                if (g_npend == 0) /* sizes 2..g_batch: flush paths with few and with many lanes */
                        g_batch_target = 2 + (int) (mix_seed(g_seed ^ 0xC, (uint64_t) it->id) %
                                                    (uint64_t) (g_batch - 1));
                c->slot = 1 + g_npend;
                g_pend[g_npend++] = c;
                if (g_npend >= g_batch_target)
                        flush_pending(&seed);
        }
        flush_pending(&seed);
        if (footprint_only)
                return;
        for (int i = 0; i < g_nsuites; i++) {
                const k3_suite *s = &g_suites[i];

                printf("CNT var=%s suite=%d/%d items=%ld accepted=%ld rejected=%ld toolarge=%ld "
                       "runs=%ld gjobs=%ld fails=%ld",
                       v->name, s->cipher, s->hash, s->items, s->accepted, s->rejected, s->toolarge,
                       s->runs, s->gjobs, s->fails);
                for (int sd = S_END; sd <= S_START; sd++) {
                        printf(" %s=", side_name[sd]);
                        int first = 1;

                        for (int o = 0; o < O_NUM; o++)
                                if (s->flush[o][sd]) {
                                        printf("%s%s:%ld", first ? "" : ",", obj_id_name[o],
                                               s->flush[o][sd]);
                                        first = 0;
                                }
                        if (first)
                                printf("-");
                }
                printf("\n");
        }
        fflush(stdout);
}

static void
usage(void)
{
        fprintf(stderr,
                "usage: k3_place <casefile|-> [--variants a,b|all] [--eps 0,2,..] [--batch N]\n"
                "                [--seed S] [--full-eps] [--no-single] [--footprint] [--max-fail N]\n"
                "       k3_place --list-variants\n");
        exit(2);
}

int
main(int argc, char **argv)
{
        const char *casefile = NULL, *variants = "all";
        int footprint = 0, list = 0;

        if (getenv("K3_NOASLR") == NULL) {
                setenv("K3_NOASLR", "1", 1);
                if (personality(ADDR_NO_RANDOMIZE) != -1)
                        execv("/proc/self/exe", argv);
        }
        g_eps[0] = 0;
        g_eps[1] = 2;
        g_neps = 2;
        for (int i = 1; i < argc; i++) {
                if (!strcmp(argv[i], "--variants") && i + 1 < argc)
                        variants = argv[++i];
                else if (!strcmp(argv[i], "--eps") && i + 1 < argc) {
                        g_neps = 0;
                        for (const char *p = argv[++i]; *p; p++)
                                if (*p >= '0' && *p <= '6' && g_neps < IMBH_NUM_EPS)
                                        g_eps[g_neps++] = *p - '0';
                } else if (!strcmp(argv[i], "--batch") && i + 1 < argc)
                        g_batch = atoi(argv[++i]);
                else if (!strcmp(argv[i], "--seed") && i + 1 < argc)
                        g_seed = strtoull(argv[++i], NULL, 0);
                else if (!strcmp(argv[i], "--max-fail") && i + 1 < argc)
                        g_max_fail_lines = atol(argv[++i]);
                else if (!strcmp(argv[i], "--full-eps"))
                        g_full_eps = 1;
                else if (!strcmp(argv[i], "--no-single"))
                        g_no_single = 1;
                else if (!strcmp(argv[i], "--footprint"))
                        footprint = 1;
                else if (!strcmp(argv[i], "--list-variants"))
                        list = 1;
                else if (argv[i][0] == '-' && argv[i][1] != 0)
                        usage();
                else
                        casefile = argv[i];
        }
        if (g_batch > MAX_JOBS - 1)
                g_batch = MAX_JOBS - 1;

        imbh_variant vars[IMBH_MAX_VARIANTS];
        const int nv = imbh_enum_variants(vars);

        if (list) {
                imbh_print_variants(stdout, vars, nv);
                return 0;
        }
        if (casefile == NULL)
                usage();
        if (load_cases(casefile) != 0)
                return 2;
        arena_init();
        install_handlers();
        printf("SIZES gcm_key_data=%zu gcm_context_data=%zu chacha20_poly1305_context_data=%zu "
               "kasumi_key_sched=%zu snow3g_key_sched=%zu des_sched=%d sm4_sched=%d\n",
               sizeof(struct gcm_key_data), sizeof(struct gcm_context_data),
               sizeof(struct chacha20_poly1305_context_data), sizeof(kasumi_key_sched_t),
               sizeof(snow3g_key_schedule_t), IMB_DES_KEY_SCHED_SIZE,
               4 * IMB_SM4_KEY_SCHEDULE_ROUNDS);
        int ran = 0;

        for (int i = 0; i < nv; i++) {
                if (strcmp(variants, "all") != 0) {
                        const size_t l = strlen(vars[i].name);
                        const char *p = strstr(variants, vars[i].name);

                        if (p == NULL || (p[l] != 0 && p[l] != ',') ||
                            (p != variants && p[-1] != ','))
                                continue;
                }
                run_variant(&vars[i], footprint);
                ran++;
                if (footprint)
                        break;
        }
        printf("SUMMARY variants=%d items=%zu runs=%ld jobs=%ld fails=%ld xprop=%ld reinits=%d\n", ran,
               g_nitems, g_total_runs, g_total_jobs, g_total_fail, g_total_xprop, g_reinit_count);
        return g_total_fail ? 1 : 0;
}
