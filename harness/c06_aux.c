/*
 * c06_aux - the parts of the C06 exhaustive suite sweep that k1_algo does not do:
 *
 *   c06_aux suite <file>
 *       file: lines "mode klen dir hash".  For every variant: a job slot gets these four session
 *       fields, imb_set_session() is called, one line per (variant, input line):
 *           S var=<name> mode=.. klen=.. dir=.. hash=.. ret=<0|1> errno=<n> id0=<n> id1=<n>
 *       ret = 1 iff the call returned a non-zero session id; id0/id1 = job->suite_id[] afterwards
 *       (pre-set to 0xdeadbeef: untouched words show that value).
 *
 *   c06_aux cells <file>
 *       file: K1 work items (harness/K1_FORMAT.md) whose cipher=/hash= name a PLACEHOLDER the
 *       harness library can prepare keys and buffers for, plus  xcipher=<n> xhash=<n>  = the real
 *       IMB_CIPHER_MODE / IMB_HASH_ALG of the cell:
 *         IMB_CIPHER_CUSTOM (placeholder NULL)   cipher_func = xor 0x5A over the cipher range, logs 'C'
 *         IMB_AUTH_CUSTOM   (placeholder NULL)   hash_func   = rolling byte fold into the tag, logs 'H'
 *         IMB_CIPHER_GCM_SGL / IMB_AUTH_GCM_SGL (placeholder GCM / AES_GMAC): sgl_state = IMB_SGL_ALL,
 *           the cipher range split into two segments, u.GCM.ctx set
 *         IMB_CIPHER_CHACHA20_POLY1305_SGL / IMB_AUTH_CHACHA20_POLY1305_SGL (placeholder 19 / 29): likewise
 *       Each item runs alone on every variant through the job API (ep 0) and the async burst API
 *       (ep 2); output = the canonical K1 result line + " calls=<log|->".
 *       A crash inside the library is reported as "id=.. var=.. ep=.. CRASH sig=<n>" (forked child per item).
 */
#include <stdio.h>
#include <stdlib.h>
#include <string.h>
#include <signal.h>
#include <unistd.h>
#include <sys/wait.h>
#include <sys/personality.h>

#include "imbh.h"

static char g_calls[32];
static int g_ncalls;

static void
log_call(const char c)
{
        if (g_ncalls < (int) sizeof(g_calls) - 1)
                g_calls[g_ncalls++] = c;
        g_calls[g_ncalls] = 0;
}

static int
custom_cipher(IMB_JOB *job)
{
        const uint8_t *in = job->src + job->cipher_start_src_offset_in_bytes;
        uint8_t *out = job->dst;

        log_call('C');
        for (uint64_t i = 0; i < job->msg_len_to_cipher_in_bytes; i++)
                out[i] = in[i] ^ 0x5A;
        return 0;
}

static int
custom_hash(IMB_JOB *job)
{
        const uint8_t *in = job->src + job->hash_start_src_offset_in_bytes;
        uint8_t *t = job->auth_tag_output;
        const uint64_t tl = job->auth_tag_output_len_in_bytes;

        log_call('H');
        if (tl == 0)
                return 0;
        for (uint64_t j = 0; j < tl; j++)
                t[j] = (uint8_t) (0x11 * (j + 1));
        for (uint64_t i = 0; i < job->msg_len_to_hash_in_bytes; i++)
                t[i % tl] = (uint8_t) (t[i % tl] * 31 + in[i] + i);
        return 0;
}

struct sgl_extra {
        struct gcm_context_data gctx;
        struct chacha20_poly1305_context_data cctx;
        struct IMB_SGL_IOV segs[2];
};

static void
override_job(IMB_JOB *job, const imbh_run *r, const int xc, const int xh, struct sgl_extra *x)
{
        const imbh_item *it = r->it;

        if (xc == IMB_CIPHER_CUSTOM) {
                job->cipher_mode = IMB_CIPHER_CUSTOM;
                job->cipher_func = custom_cipher;
                /* like every real cipher mode of the sweep: dst = destination area + cipher offset */
                job->dst = (it->inplace ? r->src : r->dst) + it->coff;
        }
        if (xh == IMB_AUTH_CUSTOM) {
                job->hash_alg = IMB_AUTH_CUSTOM;
                job->hash_func = custom_hash;
        }
        if (xc == IMB_CIPHER_GCM_SGL || xc == IMB_CIPHER_CHACHA20_POLY1305_SGL) {
                /* two segments covering the cipher range, in place like the one-shot twin */
                const uint64_t n = it->clen, n0 = n / 2;
                uint8_t *base_in = r->src + it->coff;
                uint8_t *base_out = (it->inplace ? r->src : r->dst) + it->coff;

                x->segs[0].in = base_in;
                x->segs[0].out = base_out;
                x->segs[0].len = n0;
                x->segs[1].in = base_in + n0;
                x->segs[1].out = base_out + n0;
                x->segs[1].len = n - n0;
                job->cipher_mode = (IMB_CIPHER_MODE) xc;
                job->sgl_state = IMB_SGL_ALL;
                job->sgl_io_segs = x->segs;
                job->num_sgl_io_segs = 2;
        }
        if (xh == IMB_AUTH_GCM_SGL) {
                job->hash_alg = IMB_AUTH_GCM_SGL;
                job->u.GCM.ctx = &x->gctx;
                if (job->sgl_state == 0)
                        job->sgl_state = IMB_SGL_ALL;
        }
        if (xh == IMB_AUTH_CHACHA20_POLY1305_SGL) {
                job->hash_alg = IMB_AUTH_CHACHA20_POLY1305_SGL;
                job->u.CHACHA20_POLY1305.ctx = &x->cctx;
                if (job->sgl_state == 0)
                        job->sgl_state = IMB_SGL_ALL;
        }
}

static void
run_one(IMB_MGR *mgr, const int ep, imbh_run *r, const int xc, const int xh)
{
        static struct sgl_extra x;
        IMB_JOB *job;

        memset(&x, 0, sizeof(x));
        g_ncalls = 0;
        g_calls[0] = 0;
        r->done = 0;
        r->status = -2;
        r->err = 0;
        if (ep == 0) {
                job = IMB_GET_NEXT_JOB(mgr);
                imbh_fill_job(job, r);
                override_job(job, r, xc, xh, &x);
                job = IMB_SUBMIT_JOB(mgr);
                r->err = imb_get_errno(mgr);
                while (job != NULL) {
                        ((imbh_run *) job->user_data)->status = (int) job->status;
                        ((imbh_run *) job->user_data)->done = 1;
                        job = IMB_GET_COMPLETED_JOB(mgr);
                }
                while ((job = IMB_FLUSH_JOB(mgr)) != NULL) {
                        ((imbh_run *) job->user_data)->status = (int) job->status;
                        ((imbh_run *) job->user_data)->done = 1;
                }
        } else {
                IMB_JOB *jobs[IMB_MAX_BURST_SIZE];
                uint32_t done;

                if (IMB_GET_NEXT_BURST(mgr, 1, jobs) != 1) {
                        r->done = 1;
                        r->err = imb_get_errno(mgr);
                        return;
                }
                imbh_fill_job(jobs[0], r);
                override_job(jobs[0], r, xc, xh, &x);
                imb_set_session(mgr, jobs[0]);
                done = IMB_SUBMIT_BURST(mgr, 1, jobs);
                r->err = imb_get_errno(mgr);
                if (done == 0 && r->err != 0) {
                        r->status = (int) jobs[0]->status;
                        r->done = 1;
                        return;
                }
                do {
                        for (uint32_t i = 0; i < done; i++) {
                                ((imbh_run *) jobs[i]->user_data)->status = (int) jobs[i]->status;
                                ((imbh_run *) jobs[i]->user_data)->done = 1;
                        }
                } while ((done = IMB_FLUSH_BURST(mgr, IMB_MAX_BURST_SIZE, jobs)) != 0);
        }
}

/* remove " xcipher=N" / " xhash=N" from the line, return their values (-1 if absent) */
static void
strip_x(char *line, int *xc, int *xh)
{
        static const char *const keys[2] = { "xcipher=", "xhash=" };
        int *const out[2] = { xc, xh };

        *xc = *xh = -1;
        for (int k = 0; k < 2; k++) {
                char *p = strstr(line, keys[k]);

                if (p == NULL || (p != line && p[-1] != ' '))
                        continue;
                *out[k] = atoi(p + strlen(keys[k]));
                char *e = p;
                while (*e && *e != ' ' && *e != '\n')
                        e++;
                memmove(p, e, strlen(e) + 1);
        }
}

static int
do_cells(const char *path, imbh_variant *v, const int nv)
{
        FILE *f = fopen(path, "r");
        char *line = NULL;
        size_t cap = 0;

        if (f == NULL) {
                perror(path);
                return 2;
        }
        while (getline(&line, &cap, f) > 0) {
                int xc, xh;
                imbh_item it;

                if (line[0] == '#' || line[0] == '\n')
                        continue;
                strip_x(line, &xc, &xh);
                memset(&it, 0, sizeof(it));
                if (imbh_item_parse(line, &it) != 0 || it.bad) {
                        printf("id=%ld var=- ep=0 status=-1 errno=-3 parse=%s\n", it.id, it.err);
                        imbh_item_free(&it);
                        continue;
                }
                for (int vi = 0; vi < nv; vi++) {
                        for (int ep = 0; ep <= 2; ep += 2) {
                                fflush(stdout);
                                const pid_t pid = fork();

                                if (pid == 0) {
                                        imbh_run *r = imbh_run_new(v[vi].mgr, &it);
                                        imbh_str out = { 0 };

                                        alarm(30);
                                        if (r->prep_err) {
                                                printf("id=%ld var=%s ep=%d status=-1 errno=%d\n", it.id,
                                                       v[vi].name, ep, r->prep_err);
                                        } else {
                                                run_one(v[vi].mgr, ep, r, xc, xh);
                                                imbh_format_result(&out, r, v[vi].name, ep);
                                                printf("%s calls=%s\n", out.s, g_ncalls ? g_calls : "-");
                                        }
                                        fflush(stdout);
                                        _exit(0);
                                }
                                int st = 0;

                                waitpid(pid, &st, 0);
                                if (WIFSIGNALED(st))
                                        printf("id=%ld var=%s ep=%d CRASH sig=%d\n", it.id, v[vi].name, ep,
                                               WTERMSIG(st));
                        }
                }
                imbh_item_free(&it);
        }
        free(line);
        fclose(f);
        return 0;
}

static int
do_suite(const char *path, imbh_variant *v, const int nv)
{
        FILE *f = fopen(path, "r");
        unsigned m, k, d, h;

        if (f == NULL) {
                perror(path);
                return 2;
        }
        for (int vi = 0; vi < nv; vi++) {
                IMB_MGR *mgr = v[vi].mgr;

                rewind(f);
                while (fscanf(f, "%u %u %u %u", &m, &k, &d, &h) == 4) {
                        IMB_JOB *job = IMB_GET_NEXT_JOB(mgr);

                        memset(job, 0, sizeof(*job));
                        job->cipher_mode = (IMB_CIPHER_MODE) m;
                        job->key_len_in_bytes = k;
                        job->cipher_direction = (IMB_CIPHER_DIRECTION) d;
                        job->hash_alg = (IMB_HASH_ALG) h;
                        job->suite_id[0] = job->suite_id[1] = 0xdeadbeefu;
                        const uint32_t ret = imb_set_session(mgr, job);
                        const int err = imb_get_errno(mgr);

                        printf("S var=%s mode=%u klen=%u dir=%u hash=%u ret=%d errno=%d id0=%u id1=%u\n",
                               v[vi].name, m, k, d, h, ret != 0, err, job->suite_id[0], job->suite_id[1]);
                }
        }
        fclose(f);
        return 0;
}

int
main(int argc, char **argv)
{
        imbh_variant v[IMBH_MAX_VARIANTS];

        if (argc != 3 || (strcmp(argv[1], "suite") && strcmp(argv[1], "cells"))) {
                fprintf(stderr, "usage: c06_aux suite|cells <file>\n");
                return 2;
        }
        /* like k1_algo: undefined output bytes should at least repeat between runs */
        if (getenv("C06_AUX_NOASLR") == NULL) {
                setenv("C06_AUX_NOASLR", "1", 1);
                if (personality(ADDR_NO_RANDOMIZE) != -1)
                        execv("/proc/self/exe", argv);
        }
        const int nv = imbh_enum_variants(v);

        if (nv <= 0) {
                fprintf(stderr, "c06_aux: no implementation variant\n");
                return 2;
        }
        imbh_print_variants(stderr, v, nv);
        if (!strcmp(argv[1], "suite"))
                return do_suite(argv[2], v, nv);
        return do_cells(argv[2], v, nv);
}
