/* K13 -- SAFE_DATA residue scan (property C13), see coq/Mgr/C13_NOTES.md.
 *
 *   k13_scan --variant <sse|avx2|avx512>:f<flags> [--slots FILE] [--quiet] <schedule-file|->
 *   k13_scan --list-variants
 *   k13_scan --variant V --selfcheck        (plants residues, the scanner must find all of them)
 *
 * A schedule is a list of K1 work items (harness/K1_FORMAT.md) that is run as ONE batch through one
 * entry point of a manager whose every handler is hooked by k13_tramp.S:
 *
 *      S <sid> ep=<0..7>     0-6: entry points of K1_FORMAT.md; 7: streaming direct API of
 *                            CHACHA20-POLY1305 / AES-GCM (INIT, two UPDATEs, FINALIZE) with a context
 *                            owned by this harness that is scanned after FINALIZE (kind=ctx)
 *      P <hex>             optional; plaintext belonging to the NEXT item when its msg is ciphertext
 *      I <K1 work item>
 *      ...
 *      E
 *
 * For every schedule:
 *   1. on a second, un-hooked manager of the same variant all key material is derived with the
 *      library's own helpers; every 8-byte window of raw keys, derived material and plaintext goes
 *      into a hash set ("secrets"),
 *   2. the private stack is zeroed; keys are prepared again on the hooked manager (every helper call
 *      is followed by a scan), then the batch is run (imbh_run_batch),
 *   3. after every hooked call the library's stack is scanned (hits are remembered with the call
 *      that left them); whenever NO lane of ANY out-of-order manager holds a job ("idle"), the
 *      register snapshot, the still present stack hits and the whole manager memory
 *      (imb_get_mb_mgr_size() bytes) are scanned and reported, unless the window also occurs in
 *      public data of the schedule (IV, AAD, ciphertext, tag),
 *   4. after every hooked call the storage invariant of coq/Mgr/SafeData.v is measured: for every
 *      lane with job_in_lane == NULL every data-bearing field must be all-zero (its reset image).
 *
 * Output (stdout), one record per line:
 *   HIT    sid= var= ep= call= fn= kind=reg|stack|mgr|ctx where= len= secret=<item>:<class>+<off> leftby= bytes=
 *   DIRTY  sid= var= ep= ooo= field= lanes=<hex mask> first_call= first_fn= idle_seen=<0|1> count=
 *          lane=<first lane free and dirty at the end> public=<units found in public data>/<units> now=<hex>
 *   USED   sid= var= ooo= field=          (a busy lane held non-zero data in this field)
 *   SCHED  sid= var= ep= n= calls= idle= hits= dirty= windows= status=<s0,s1,..>
 *   TOTAL  ...
 */
#define _GNU_SOURCE
/* imb_hmac_ipad_opad() is an exported helper, not an IMB_MGR handler: the key preparation of imbh.c calls it by name.
 * It is routed through a spare trampoline slot so that it runs on the library's private stack like every handler
 * (and is followed by the same register / stack scans); see k13_hmac_ipad_opad() below. */
#include <intel-ipsec-mb.h>
static void
k13_hmac_ipad_opad(IMB_MGR *mb_mgr, const IMB_HASH_ALG sha_type, const void *pkey, const size_t key_len, void *ipad_hash,
                   void *opad_hash);
#define imb_hmac_ipad_opad k13_hmac_ipad_opad
#include "imbh.c" /* one translation unit: struct imbh_keys is needed */
#undef imb_hmac_ipad_opad

#include <sys/mman.h>
#include <ipsec_ooo_mgr.h>

/* ------------------------------------------------------------------------------------------ */
/* trampoline interface (k13_tramp.S)                                                          */
/* ------------------------------------------------------------------------------------------ */
#define K13_NSLOTS 256
struct k13_dump {
        uint64_t gpr[16]; /* rax rbx rcx rdx rsi rdi rbp rsp r8..r15 */
        uint64_t rflags;
        uint64_t mxcsr;
        uint64_t k[8];
        uint8_t pad[256 - 208];
        uint8_t zmm[32][64];
};
extern struct k13_dump k13_dump;
extern void *k13_orig[K13_NSLOTS];
extern uint64_t k13_pre[6]; /* rdi rsi rdx rcx r8 r9 at the call */
extern uint8_t *k13_stack_top;
extern uint8_t *k13_call_rsp;
extern uint32_t k13_depth, k13_simd_level;
extern char k13_stubs[];
void
k13_post(uint64_t slot);

#define PSTACK_SIZE (256 * 1024)
static uint8_t *pstack_base;

static const char *const gpr_names[16] = { "rax", "rbx", "rcx", "rdx", "rsi", "rdi", "rbp", "rsp",
                                           "r8",  "r9",  "r10", "r11", "r12", "r13", "r14", "r15" };

/* ------------------------------------------------------------------------------------------ */
/* slot names                                                                                  */
/* ------------------------------------------------------------------------------------------ */
static char slot_names[K13_NSLOTS][48];
static int n_slots;

static const char *
slot_name(const uint64_t s)
{
        static char buf[32];

        if (s < K13_NSLOTS && slot_names[s][0])
                return slot_names[s];
        if (s == 999)
                return "final";
        snprintf(buf, sizeof(buf), "slot%u", (unsigned) s);
        return buf;
}

static void
load_slot_names(const char *path)
{
        FILE *f = fopen(path, "r");
        char line[128];
        int i = 0;

        if (f == NULL) {
                fprintf(stderr, "k13: cannot read %s\n", path);
                exit(2);
        }
        while (i < K13_NSLOTS && fgets(line, sizeof(line), f) != NULL) {
                line[strcspn(line, "\r\n")] = 0;
                if (line[0])
                        snprintf(slot_names[i++], sizeof(slot_names[0]), "%.47s", line);
        }
        fclose(f);
        if (i != n_slots) {
                fprintf(stderr, "k13: %s lists %d handlers, IMB_MGR has %d\n", path, i, n_slots);
                exit(2);
        }
}

/* ------------------------------------------------------------------------------------------ */
/* out-of-order manager layout tables                                                          */
/* ------------------------------------------------------------------------------------------ */
enum { F_LANE, F_ROWS, F_ZUCKS };
typedef struct {
        const char *name;
        int kind;
        size_t base;   /* offset in the OOO structure */
        size_t stride; /* F_LANE: bytes between lanes; F_ROWS: bytes between lanes inside a row */
        size_t len;    /* F_LANE: bytes per lane checked; F_ROWS: bytes per word */
        size_t nrows, row_stride;
        size_t ni_stride; /* F_ROWS only: bytes between lanes when the manager runs the 2-lane SHA-NI layout
                           * (digest words of a lane contiguous), 0 = no such layout */
} fdef;

typedef struct {
        const char *type;
        size_t size;
        size_t jil_base, jil_stride;
        int nlanes;
        const fdef *f;
        int nf;
        size_t tnl_off; /* offset of total_num_lanes (uint32_t), 0 = none */
} odef;

#define LANE(T, nm, member, str, ln) { nm, F_LANE, offsetof(T, member), str, ln, 0, 0, 0 }
#define ROWS(T, nm, member, wsz, nr, rs) { nm, F_ROWS, offsetof(T, member), wsz, wsz, nr, rs, 0 }
#define ROWSNI(T, nm, member, wsz, nr, rs, ni) { nm, F_ROWS, offsetof(T, member), wsz, wsz, nr, rs, ni }
#define ODEF(T, jil, jstr, nl, tab)                                                                \
        { #T, sizeof(T), offsetof(T, jil), jstr, nl, tab, (int) (sizeof(tab) / sizeof(tab[0])), 0 }

static const fdef f_aes[] = {
        LANE(MB_MGR_AES_OOO, "args.keys", args.keys, 8, 8),
        LANE(MB_MGR_AES_OOO, "args.IV", args.IV, 16, 16),
        ROWS(MB_MGR_AES_OOO, "args.key_tab", args.key_tab, 16, 15, 256),
};
static const fdef f_docsis[] = {
        LANE(MB_MGR_DOCSIS_AES_OOO, "args.keys", args.keys, 8, 8),
        LANE(MB_MGR_DOCSIS_AES_OOO, "args.IV", args.IV, 16, 16),
        ROWS(MB_MGR_DOCSIS_AES_OOO, "args.key_tab", args.key_tab, 16, 15, 256),
        LANE(MB_MGR_DOCSIS_AES_OOO, "crc_init", crc_init, 16, 16),
};
static const fdef f_xcbc[] = {
        LANE(MB_MGR_AES_XCBC_OOO, "args.keys", args.keys, 8, 8),
        LANE(MB_MGR_AES_XCBC_OOO, "args.ICV", args.ICV, 16, 16),
        ROWS(MB_MGR_AES_XCBC_OOO, "args.key_tab", args.key_tab, 16, 11, 256),
        LANE(MB_MGR_AES_XCBC_OOO, "ldata.final_block", ldata[0].final_block, sizeof(XCBC_LANE_DATA),
             16),
};
static const fdef f_ccm[] = {
        LANE(MB_MGR_CCM_OOO, "args.keys", args.keys, 8, 8),
        LANE(MB_MGR_CCM_OOO, "args.IV", args.IV, 16, 16),
        ROWS(MB_MGR_CCM_OOO, "args.key_tab", args.key_tab, 16, 15, 256),
        LANE(MB_MGR_CCM_OOO, "init_blocks", init_blocks, 64, 64),
};
static const fdef f_cmac[] = {
        LANE(MB_MGR_CMAC_OOO, "args.keys", args.keys, 8, 8),
        LANE(MB_MGR_CMAC_OOO, "args.IV", args.IV, 16, 16),
        ROWS(MB_MGR_CMAC_OOO, "args.key_tab", args.key_tab, 16, 15, 256),
        LANE(MB_MGR_CMAC_OOO, "scratch", scratch, 16, 16),
};
static const fdef f_des[] = {
        LANE(MB_MGR_DES_OOO, "args.keys", args.keys, 8, 8),
        ROWS(MB_MGR_DES_OOO, "args.IV", args.IV, 4, 2, AVX512_NUM_DES_LANES * 4),
};
static const fdef f_zuc[] = {
        LANE(MB_MGR_ZUC_OOO, "args.keys", args.keys, 8, 8),
        LANE(MB_MGR_ZUC_OOO, "args.iv", args.iv, 32, 32),
        /* AVX512 EIA3 key stream: 16-byte chunks interleaved (zuc_x16_avx512.asm, "First the 128 bytes for
         * buffers 0,4,8,12 (total of 512 bytes), then ... 1,5,9,13"): chunk K (0..7) of lane L lives at
         * (L % 4) * 512 + K * 64 + (L / 4) * 16.  SSE/AVX2 managers do not keep key stream here. */
        { "args.ks", F_ZUCKS, offsetof(MB_MGR_ZUC_OOO, args.ks), 16, 16, 8, 64, 0 },
        ROWS(MB_MGR_ZUC_OOO, "state", state, 4, 22, 0), /* row stride = 4 * lanes of the architecture */
};
static const fdef f_snow3g[] = {
        LANE(MB_MGR_SNOW3G_OOO, "args.keys", args.keys, 8, 8),
        ROWS(MB_MGR_SNOW3G_OOO, "args.LFSR_FSM", args.LFSR_0, 4, 19, 64),
        LANE(MB_MGR_SNOW3G_OOO, "ks", ks, 32, 32),
};
#define HMAC_FIELDS(T, LD, drows, dword, drs, xb, ob)                                              \
        ROWSNI(T, "args.digest", args.digest, dword, drows, drs, (dword) == 4 ? ((drows) == 5 ? 20 : (drows) == 4 ? 0 : 32) : 0), \
                LANE(T, "ldata.extra_block", ldata[0].extra_block, sizeof(LD), xb),                \
                LANE(T, "ldata.outer_block", ldata[0].outer_block, sizeof(LD), ob)
static const fdef f_hmac_sha1[] = { HMAC_FIELDS(MB_MGR_HMAC_SHA_1_OOO, HMAC_SHA1_LANE_DATA, 5, 4,
                                                AVX512_NUM_SHA1_LANES * 4, 64, 20) };
static const fdef f_hmac_sha224[] = { HMAC_FIELDS(MB_MGR_HMAC_SHA_256_OOO, HMAC_SHA1_LANE_DATA, 7, 4,
                                                  AVX512_NUM_SHA256_LANES * 4, 64, 28) };
static const fdef f_hmac_sha256[] = { HMAC_FIELDS(MB_MGR_HMAC_SHA_256_OOO, HMAC_SHA1_LANE_DATA, 8, 4,
                                                  AVX512_NUM_SHA256_LANES * 4, 64, 32) };
static const fdef f_hmac_sha384[] = { HMAC_FIELDS(MB_MGR_HMAC_SHA_512_OOO, HMAC_SHA512_LANE_DATA, 6,
                                                  8, AVX512_NUM_SHA512_LANES * 8, 128, 48) };
static const fdef f_hmac_sha512[] = { HMAC_FIELDS(MB_MGR_HMAC_SHA_512_OOO, HMAC_SHA512_LANE_DATA, 8,
                                                  8, AVX512_NUM_SHA512_LANES * 8, 128, 64) };
static const fdef f_hmac_md5[] = { HMAC_FIELDS(MB_MGR_HMAC_MD5_OOO, HMAC_SHA1_LANE_DATA, 4, 4,
                                               AVX512_NUM_MD5_LANES * 4, 64, 16) };
static const fdef f_sha1[] = { HMAC_FIELDS(MB_MGR_SHA_1_OOO, HMAC_SHA1_LANE_DATA, 5, 4,
                                           AVX512_NUM_SHA1_LANES * 4, 64, 20) };
static const fdef f_sha256[] = { HMAC_FIELDS(MB_MGR_SHA_256_OOO, HMAC_SHA1_LANE_DATA, 8, 4,
                                             AVX512_NUM_SHA256_LANES * 4, 64, 32) };
static const fdef f_sha512[] = { HMAC_FIELDS(MB_MGR_SHA_512_OOO, HMAC_SHA512_LANE_DATA, 8, 8,
                                             AVX512_NUM_SHA512_LANES * 8, 128, 64) };

static const odef d_aes = ODEF(MB_MGR_AES_OOO, job_in_lane, 8, 16, f_aes);
static const odef d_docsis = ODEF(MB_MGR_DOCSIS_AES_OOO, job_in_lane, 8, 16, f_docsis);
static const odef d_xcbc =
        ODEF(MB_MGR_AES_XCBC_OOO, ldata[0].job_in_lane, sizeof(XCBC_LANE_DATA), 16, f_xcbc);
static const odef d_ccm = ODEF(MB_MGR_CCM_OOO, job_in_lane, 8, 16, f_ccm);
static const odef d_cmac = ODEF(MB_MGR_CMAC_OOO, job_in_lane, 8, 16, f_cmac);
static const odef d_des = ODEF(MB_MGR_DES_OOO, job_in_lane, 8, 16, f_des);
static const odef d_zuc = ODEF(MB_MGR_ZUC_OOO, job_in_lane, 8, 16, f_zuc);
static const odef d_snow3g = ODEF(MB_MGR_SNOW3G_OOO, job_in_lane, 8, 16, f_snow3g);
#define HDEF(T, LD, nl, tab)                                                                       \
        { #T, sizeof(T), offsetof(T, ldata[0].job_in_lane), sizeof(LD), nl, tab,                   \
          (int) (sizeof(tab) / sizeof(tab[0])), offsetof(T, total_num_lanes) }
static const odef d_hmac_sha1 =
        HDEF(MB_MGR_HMAC_SHA_1_OOO, HMAC_SHA1_LANE_DATA, AVX512_NUM_SHA1_LANES, f_hmac_sha1);
static const odef d_hmac_sha224 =
        HDEF(MB_MGR_HMAC_SHA_256_OOO, HMAC_SHA1_LANE_DATA, AVX512_NUM_SHA256_LANES, f_hmac_sha224);
static const odef d_hmac_sha256 =
        HDEF(MB_MGR_HMAC_SHA_256_OOO, HMAC_SHA1_LANE_DATA, AVX512_NUM_SHA256_LANES, f_hmac_sha256);
static const odef d_hmac_sha384 =
        HDEF(MB_MGR_HMAC_SHA_512_OOO, HMAC_SHA512_LANE_DATA, AVX512_NUM_SHA512_LANES, f_hmac_sha384);
static const odef d_hmac_sha512 =
        HDEF(MB_MGR_HMAC_SHA_512_OOO, HMAC_SHA512_LANE_DATA, AVX512_NUM_SHA512_LANES, f_hmac_sha512);
static const odef d_hmac_md5 =
        HDEF(MB_MGR_HMAC_MD5_OOO, HMAC_SHA1_LANE_DATA, AVX512_NUM_MD5_LANES, f_hmac_md5);
static const odef d_sha1 = HDEF(MB_MGR_SHA_1_OOO, HMAC_SHA1_LANE_DATA, AVX512_NUM_SHA1_LANES, f_sha1);
static const odef d_sha256 =
        HDEF(MB_MGR_SHA_256_OOO, HMAC_SHA1_LANE_DATA, AVX512_NUM_SHA256_LANES, f_sha256);
static const odef d_sha512 =
        HDEF(MB_MGR_SHA_512_OOO, HMAC_SHA512_LANE_DATA, AVX512_NUM_SHA512_LANES, f_sha512);

typedef struct {
        const char *name;
        size_t ptr_off;
        const odef *d;
} oinst;
#define OI(n, d) { #n, offsetof(IMB_MGR, n), d }
static const oinst ooo_tab[] = {
        OI(aes128_ooo, &d_aes),
        OI(aes192_ooo, &d_aes),
        OI(aes256_ooo, &d_aes),
        OI(docsis128_sec_ooo, &d_docsis),
        OI(docsis128_crc32_sec_ooo, &d_docsis),
        OI(docsis256_sec_ooo, &d_docsis),
        OI(docsis256_crc32_sec_ooo, &d_docsis),
        OI(des_enc_ooo, &d_des),
        OI(des_dec_ooo, &d_des),
        OI(des3_enc_ooo, &d_des),
        OI(des3_dec_ooo, &d_des),
        OI(docsis_des_enc_ooo, &d_des),
        OI(docsis_des_dec_ooo, &d_des),
        OI(hmac_sha_1_ooo, &d_hmac_sha1),
        OI(hmac_sha_224_ooo, &d_hmac_sha224),
        OI(hmac_sha_256_ooo, &d_hmac_sha256),
        OI(hmac_sha_384_ooo, &d_hmac_sha384),
        OI(hmac_sha_512_ooo, &d_hmac_sha512),
        OI(hmac_md5_ooo, &d_hmac_md5),
        OI(aes_xcbc_ooo, &d_xcbc),
        OI(aes_ccm_ooo, &d_ccm),
        OI(aes_cmac_ooo, &d_cmac),
        OI(aes128_cbcs_ooo, &d_aes),
        OI(zuc_eea3_ooo, &d_zuc),
        OI(zuc_eia3_ooo, &d_zuc),
        OI(zuc256_eea3_ooo, &d_zuc),
        OI(zuc256_eia3_ooo, &d_zuc),
        OI(aes256_ccm_ooo, &d_ccm),
        OI(aes256_cmac_ooo, &d_cmac),
        OI(snow3g_uea2_ooo, &d_snow3g),
        OI(snow3g_uia2_ooo, &d_snow3g),
        OI(sha_1_ooo, &d_sha1),
        OI(sha_224_ooo, &d_sha256),
        OI(sha_256_ooo, &d_sha256),
        OI(sha_384_ooo, &d_sha512),
        OI(sha_512_ooo, &d_sha512),
        OI(zuc256_eia3_8B_ooo, &d_zuc),
        OI(zuc256_eia3_16B_ooo, &d_zuc),
        OI(aes_cfb_128_ooo, &d_aes),
        OI(aes_cfb_192_ooo, &d_aes),
        OI(aes_cfb_256_ooo, &d_aes),
};
#define N_OOO ((int) (sizeof(ooo_tab) / sizeof(ooo_tab[0])))
#define MAX_FIELDS 8

/* names of the top level members, for reporting manager hits */
typedef struct {
        const char *type, *member;
        size_t off, size;
} mdef;
#define M(T, m) { #T, #m, offsetof(T, m), sizeof(((T *) 0)->m) }
static const mdef member_tab[] = {
        M(MB_MGR_AES_OOO, args.in), M(MB_MGR_AES_OOO, args.out), M(MB_MGR_AES_OOO, args.keys),
        M(MB_MGR_AES_OOO, args.IV), M(MB_MGR_AES_OOO, args.key_tab), M(MB_MGR_AES_OOO, lens),
        M(MB_MGR_AES_OOO, unused_lanes), M(MB_MGR_AES_OOO, job_in_lane),
        M(MB_MGR_AES_OOO, num_lanes_inuse), M(MB_MGR_AES_OOO, lens64),
        M(MB_MGR_DOCSIS_AES_OOO, args.in), M(MB_MGR_DOCSIS_AES_OOO, args.out),
        M(MB_MGR_DOCSIS_AES_OOO, args.keys), M(MB_MGR_DOCSIS_AES_OOO, args.IV),
        M(MB_MGR_DOCSIS_AES_OOO, args.key_tab), M(MB_MGR_DOCSIS_AES_OOO, lens),
        M(MB_MGR_DOCSIS_AES_OOO, job_in_lane), M(MB_MGR_DOCSIS_AES_OOO, crc_init),
        M(MB_MGR_DOCSIS_AES_OOO, crc_len), M(MB_MGR_DOCSIS_AES_OOO, crc_done),
        M(MB_MGR_AES_XCBC_OOO, args.in), M(MB_MGR_AES_XCBC_OOO, args.keys),
        M(MB_MGR_AES_XCBC_OOO, args.ICV), M(MB_MGR_AES_XCBC_OOO, args.key_tab),
        M(MB_MGR_AES_XCBC_OOO, lens), M(MB_MGR_AES_XCBC_OOO, ldata),
        M(MB_MGR_CCM_OOO, args.in), M(MB_MGR_CCM_OOO, args.out), M(MB_MGR_CCM_OOO, args.keys),
        M(MB_MGR_CCM_OOO, args.IV), M(MB_MGR_CCM_OOO, args.key_tab), M(MB_MGR_CCM_OOO, lens),
        M(MB_MGR_CCM_OOO, init_done), M(MB_MGR_CCM_OOO, job_in_lane),
        M(MB_MGR_CCM_OOO, init_blocks),
        M(MB_MGR_CMAC_OOO, args.in), M(MB_MGR_CMAC_OOO, args.out), M(MB_MGR_CMAC_OOO, args.keys),
        M(MB_MGR_CMAC_OOO, args.IV), M(MB_MGR_CMAC_OOO, args.key_tab), M(MB_MGR_CMAC_OOO, lens),
        M(MB_MGR_CMAC_OOO, init_done), M(MB_MGR_CMAC_OOO, job_in_lane), M(MB_MGR_CMAC_OOO, scratch),
        M(MB_MGR_DES_OOO, args.in), M(MB_MGR_DES_OOO, args.out), M(MB_MGR_DES_OOO, args.keys),
        M(MB_MGR_DES_OOO, args.IV), M(MB_MGR_DES_OOO, args.partial_len),
        M(MB_MGR_DES_OOO, args.block_len), M(MB_MGR_DES_OOO, args.last_in),
        M(MB_MGR_DES_OOO, args.last_out), M(MB_MGR_DES_OOO, lens), M(MB_MGR_DES_OOO, job_in_lane),
        M(MB_MGR_ZUC_OOO, args.in), M(MB_MGR_ZUC_OOO, args.out), M(MB_MGR_ZUC_OOO, args.keys),
        M(MB_MGR_ZUC_OOO, args.iv), M(MB_MGR_ZUC_OOO, args.digest), M(MB_MGR_ZUC_OOO, args.ks),
        M(MB_MGR_ZUC_OOO, lens), M(MB_MGR_ZUC_OOO, job_in_lane), M(MB_MGR_ZUC_OOO, state),
        M(MB_MGR_SNOW3G_OOO, args.in), M(MB_MGR_SNOW3G_OOO, args.out),
        M(MB_MGR_SNOW3G_OOO, args.keys), M(MB_MGR_SNOW3G_OOO, args.iv),
        M(MB_MGR_SNOW3G_OOO, args.LFSR_0), M(MB_MGR_SNOW3G_OOO, args.FSM_1),
        M(MB_MGR_SNOW3G_OOO, args.INITIALIZED), M(MB_MGR_SNOW3G_OOO, args.byte_length),
        M(MB_MGR_SNOW3G_OOO, lens), M(MB_MGR_SNOW3G_OOO, job_in_lane),
        M(MB_MGR_SNOW3G_OOO, bits_fixup), M(MB_MGR_SNOW3G_OOO, ks),
        M(MB_MGR_HMAC_SHA_1_OOO, args.digest), M(MB_MGR_HMAC_SHA_1_OOO, args.data_ptr),
        M(MB_MGR_HMAC_SHA_1_OOO, lens), M(MB_MGR_HMAC_SHA_1_OOO, ldata),
        M(MB_MGR_HMAC_SHA_256_OOO, args.digest), M(MB_MGR_HMAC_SHA_256_OOO, args.data_ptr),
        M(MB_MGR_HMAC_SHA_256_OOO, lens), M(MB_MGR_HMAC_SHA_256_OOO, ldata),
        M(MB_MGR_HMAC_SHA_512_OOO, args.digest), M(MB_MGR_HMAC_SHA_512_OOO, args.data_ptr),
        M(MB_MGR_HMAC_SHA_512_OOO, lens), M(MB_MGR_HMAC_SHA_512_OOO, ldata),
        M(MB_MGR_HMAC_MD5_OOO, args.digest), M(MB_MGR_HMAC_MD5_OOO, args.data_ptr),
        M(MB_MGR_HMAC_MD5_OOO, lens), M(MB_MGR_HMAC_MD5_OOO, ldata),
        M(MB_MGR_SHA_1_OOO, args.digest), M(MB_MGR_SHA_1_OOO, args.data_ptr),
        M(MB_MGR_SHA_1_OOO, lens), M(MB_MGR_SHA_1_OOO, ldata),
        M(MB_MGR_SHA_256_OOO, args.digest), M(MB_MGR_SHA_256_OOO, args.data_ptr),
        M(MB_MGR_SHA_256_OOO, lens), M(MB_MGR_SHA_256_OOO, ldata),
        M(MB_MGR_SHA_512_OOO, args.digest), M(MB_MGR_SHA_512_OOO, args.data_ptr),
        M(MB_MGR_SHA_512_OOO, lens), M(MB_MGR_SHA_512_OOO, ldata),
};

/* ------------------------------------------------------------------------------------------ */
/* state                                                                                       */
/* ------------------------------------------------------------------------------------------ */
static IMB_MGR *tmgr, *rmgr; /* hooked manager under test, reference manager */
static size_t mgr_size;
static uint8_t *mgr_shadow; /* copy of the manager at the last memory scan */
static const char *var_name = "?";
static int quiet;

#define MAX_ITEMS 128
typedef struct {
        int item;
        const char *cls;
        uint8_t *p;
        size_t n;
} secobj;
static secobj *secs;
static int n_secs, cap_secs;

typedef struct {
        uint64_t w;
        uint32_t sec, off;
} sent;
static sent *stab;
static size_t stab_cap, stab_used;
#define BLOOM_BITS 22
static uint64_t *bloom;

typedef struct {
        const uint8_t *p;
        size_t n;
} pubbuf;
static pubbuf pubs[MAX_ITEMS * 8];
static int n_pubs;

/* current schedule */
static char cur_sid[64] = "-";
static int cur_ep, sched_active, call_no, n_idle, n_hits, n_dirty;
static unsigned long tot_calls, tot_idle, tot_hits, tot_dirty, tot_sched, tot_windows, tot_freechecks;

typedef struct {
        uint8_t *addr;
        uint32_t sec, off, len;
        int call;
        uint64_t slot;
        int reported;
} pend;
static pend *pends;
static int n_pends, cap_pends;

typedef struct {
        uint32_t lanes;
        int first_call;
        uint64_t first_slot;
        int idle_seen;
        unsigned long count;
        int used;
} dstat;
static dstat dstats[64][MAX_FIELDS];

/* ------------------------------------------------------------------------------------------ */
/* secrets                                                                                     */
/* ------------------------------------------------------------------------------------------ */
static inline uint64_t
ld64(const uint8_t *p)
{
        uint64_t w;

        memcpy(&w, p, 8);
        return w;
}

static inline uint64_t
whash(const uint64_t w)
{
        uint64_t z = w * UINT64_C(0x9E3779B97F4A7C15);

        return z ^ (z >> 29);
}

/* windows that could match by accident are not used: at least 6 non-zero bytes and at least 5
 * distinct byte values */
static int
window_ok(const uint64_t w)
{
        int nz = 0, distinct = 0;
        uint8_t b[8];

        memcpy(b, &w, 8);
        for (int i = 0; i < 8; i++) {
                int seen = 0;

                if (b[i])
                        nz++;
                for (int j = 0; j < i; j++)
                        if (b[j] == b[i])
                                seen = 1;
                if (!seen)
                        distinct++;
        }
        return nz >= 6 && distinct >= 5;
}

static void
secrets_reset(void)
{
        for (int i = 0; i < n_secs; i++)
                free(secs[i].p);
        n_secs = 0;
        if (stab == NULL) {
                stab_cap = (size_t) 1 << 20;
                stab = calloc(stab_cap, sizeof(sent));
                bloom = calloc(((size_t) 1 << BLOOM_BITS) / 64, 8);
        } else {
                memset(stab, 0, stab_cap * sizeof(sent));
                memset(bloom, 0, ((size_t) 1 << BLOOM_BITS) / 8);
        }
        stab_used = 0;
        n_pubs = 0;
}

static void
stab_insert(const uint64_t w, const uint32_t sec, const uint32_t off)
{
        const uint64_t h = whash(w);
        size_t i = (size_t) (h & (stab_cap - 1));

        if (stab_used * 2 >= stab_cap) {
                static int warned;

                if (!warned++)
                        fprintf(stderr, "k13: secret table full, further windows ignored\n");
                return;
        }
        while (stab[i].sec != 0) {
                if (stab[i].w == w)
                        return;
                i = (i + 1) & (stab_cap - 1);
        }
        stab[i].w = w;
        stab[i].sec = sec + 1;
        stab[i].off = off;
        stab_used++;
        const uint64_t b = (h >> 20) & (((uint64_t) 1 << BLOOM_BITS) - 1);

        bloom[b >> 6] |= (uint64_t) 1 << (b & 63);
}

static inline const sent *
stab_find(const uint64_t w)
{
        const uint64_t h = whash(w);
        const uint64_t b = (h >> 20) & (((uint64_t) 1 << BLOOM_BITS) - 1);

        if (!(bloom[b >> 6] & ((uint64_t) 1 << (b & 63))))
                return NULL;
        size_t i = (size_t) (h & (stab_cap - 1));

        while (stab[i].sec != 0) {
                if (stab[i].w == w)
                        return &stab[i];
                i = (i + 1) & (stab_cap - 1);
        }
        return NULL;
}

static void
add_secret(const int item, const char *cls, const void *p, const size_t n)
{
        if (p == NULL || n < 8)
                return;
        if (n_secs == cap_secs) {
                cap_secs = cap_secs ? cap_secs * 2 : 256;
                secs = realloc(secs, (size_t) cap_secs * sizeof(secobj));
        }
        secobj *s = &secs[n_secs];

        s->item = item;
        s->cls = cls;
        s->n = n;
        s->p = malloc(n);
        memcpy(s->p, p, n);
        for (size_t o = 0; o + 8 <= n; o++) {
                const uint64_t w = ld64(s->p + o);

                if (window_ok(w))
                        stab_insert(w, (uint32_t) n_secs, (uint32_t) o);
        }
        n_secs++;
}

static void
add_public(const void *p, const size_t n)
{
        if (p == NULL || n < 8 || n_pubs >= (int) (sizeof(pubs) / sizeof(pubs[0])))
                return;
        pubs[n_pubs].p = p;
        pubs[n_pubs].n = n;
        n_pubs++;
}

static int
is_public(const uint8_t *win)
{
        for (int i = 0; i < n_pubs; i++)
                if (memmem(pubs[i].p, pubs[i].n, win, 8) != NULL)
                        return 1;
        return 0;
}

/* ChaCha20 block function (RFC 8439), for the Poly1305 one-time key of the AEAD */
static uint32_t
rotl32(const uint32_t x, const int n)
{
        return (x << n) | (x >> (32 - n));
}
#define QR(a, b, c, d)                                                                             \
        do {                                                                                       \
                a += b; d ^= a; d = rotl32(d, 16);                                                 \
                c += d; b ^= c; b = rotl32(b, 12);                                                 \
                a += b; d ^= a; d = rotl32(d, 8);                                                  \
                c += d; b ^= c; b = rotl32(b, 7);                                                  \
        } while (0)
static void
chacha20_block(const uint8_t key[32], const uint32_t counter, const uint8_t nonce[12],
               uint8_t out[64])
{
        uint32_t s[16], x[16];

        s[0] = 0x61707865; s[1] = 0x3320646e; s[2] = 0x79622d32; s[3] = 0x6b206574;
        memcpy(&s[4], key, 32);
        s[12] = counter;
        memcpy(&s[13], nonce, 12);
        memcpy(x, s, sizeof(x));
        for (int i = 0; i < 10; i++) {
                QR(x[0], x[4], x[8], x[12]); QR(x[1], x[5], x[9], x[13]);
                QR(x[2], x[6], x[10], x[14]); QR(x[3], x[7], x[11], x[15]);
                QR(x[0], x[5], x[10], x[15]); QR(x[1], x[6], x[11], x[12]);
                QR(x[2], x[7], x[8], x[13]); QR(x[3], x[4], x[9], x[14]);
        }
        for (int i = 0; i < 16; i++)
                x[i] += s[i];
        memcpy(out, x, 64);
}

static int
is_aes_sched_cipher(const int c)
{
        return c == IMB_CIPHER_CBC || c == IMB_CIPHER_CBCS_1_9 || c == IMB_CIPHER_ECB ||
               c == IMB_CIPHER_DOCSIS_SEC_BPI || c == IMB_CIPHER_CNTR ||
               c == IMB_CIPHER_CNTR_BITLEN || c == IMB_CIPHER_CCM ||
               c == IMB_CIPHER_PON_AES_CNTR || c == IMB_CIPHER_CFB;
}

/* cipher whose output is input XOR keystream (the keystream is a derived secret) */
static int
is_stream_cipher(const int c)
{
        return c == IMB_CIPHER_CNTR || c == IMB_CIPHER_CNTR_BITLEN || c == IMB_CIPHER_CCM ||
               c == IMB_CIPHER_PON_AES_CNTR || c == IMB_CIPHER_GCM || c == IMB_CIPHER_SM4_GCM ||
               c == IMB_CIPHER_SM4_CNTR || c == IMB_CIPHER_ZUC_EEA3 ||
               c == IMB_CIPHER_SNOW3G_UEA2_BITLEN || c == IMB_CIPHER_KASUMI_UEA1_BITLEN ||
               c == IMB_CIPHER_CHACHA20 || c == IMB_CIPHER_CHACHA20_POLY1305 ||
               c == IMB_CIPHER_SNOW_V || c == IMB_CIPHER_SNOW_V_AEAD;
}

static size_t
hmac_state_size(const int h)
{
        switch (h) {
        case IMB_AUTH_HMAC_SHA_1: return 20;
        case IMB_AUTH_HMAC_SHA_224:
        case IMB_AUTH_HMAC_SHA_256:
        case IMB_AUTH_HMAC_SM3: return 32;
        case IMB_AUTH_HMAC_SHA_384:
        case IMB_AUTH_HMAC_SHA_512: return 64;
        case IMB_AUTH_MD5: return 16;
        default: return 0;
        }
}

/* byte range of the message that is cipher input/output */
static void
cipher_range(const imbh_item *it, size_t *off, size_t *len)
{
        uint64_t o = it->coff, l = it->clen;

        if (cipher_off_in_bits(it->cipher)) {
                l = (cipher_len_in_bits(it->cipher) ? (o % 8) + l + 7 : l * 8 + 7) / 8;
                o /= 8;
        } else if (cipher_len_in_bits(it->cipher)) {
                l = (l + 7) / 8;
        }
        if (o > it->msg.n)
                o = it->msg.n;
        if (l > it->msg.n - o)
                l = it->msg.n - o;
        *off = (size_t) o;
        *len = (size_t) l;
}

static void
hash_range(const imbh_item *it, size_t *off, size_t *len)
{
        uint64_t o = it->hoff, l = it->hlen;

        if (hash_len_in_bits(it->hash))
                l = (l + 7) / 8;
        if (o > it->msg.n)
                o = it->msg.n;
        if (l > it->msg.n - o)
                l = it->msg.n - o;
        *off = (size_t) o;
        *len = (size_t) l;
}

/* all secrets of one work item; k = key material derived on the reference manager */
static void
collect_secrets(const int idx, const imbh_item *it, const struct imbh_keys *k, const imbh_bytes *pt)
{
        const int c = it->cipher, h = it->hash;
        size_t o, l;

        add_secret(idx, "cipher-key", it->key.p, it->key.n);
        add_secret(idx, "auth-key", it->akey.p, it->akey.n);

        if (it->key.n && !(it->nullmask & IMBH_NULL_KEY)) {
                if (is_aes_sched_cipher(c)) {
                        const size_t n = (it->key.n / 4 + 7) * 16;

                        if (it->key.n == 16 || it->key.n == 24 || it->key.n == 32) {
                                add_secret(idx, "aes-enc-schedule", k->enc, n);
                                add_secret(idx, "aes-dec-schedule", k->dec, n);
                        }
                } else if (c == IMB_CIPHER_GCM || c == IMB_CIPHER_SM4_GCM) {
                        add_secret(idx, "gcm-key-data", &k->gcm, sizeof(k->gcm));
                } else if (c == IMB_CIPHER_DES || c == IMB_CIPHER_DOCSIS_DES) {
                        add_secret(idx, "des-schedule", k->des_ks[0], sizeof(k->des_ks[0]));
                } else if (c == IMB_CIPHER_DES3) {
                        add_secret(idx, "des-schedule", k->des_ks, sizeof(k->des_ks));
                } else if (c == IMB_CIPHER_SM4_ECB || c == IMB_CIPHER_SM4_CBC ||
                           c == IMB_CIPHER_SM4_CNTR) {
                        add_secret(idx, "sm4-enc-schedule", k->enc, 32 * 4);
                        add_secret(idx, "sm4-dec-schedule", k->dec, 32 * 4);
                } else if (c == IMB_CIPHER_SNOW3G_UEA2_BITLEN) {
                        add_secret(idx, "snow3g-schedule", k->snow3g_c,
                                   IMB_SNOW3G_KEY_SCHED_SIZE(rmgr));
                } else if (c == IMB_CIPHER_KASUMI_UEA1_BITLEN) {
                        add_secret(idx, "kasumi-schedule", &k->kas_c, sizeof(k->kas_c));
                } else if (c == IMB_CIPHER_CHACHA20_POLY1305 && it->key.n == 32 && it->iv.n == 12) {
                        uint8_t blk[64];

                        chacha20_block(it->key.p, 0, it->iv.p, blk);
                        add_secret(idx, "poly1305-key", blk, 32);
                }
                if ((c == IMB_CIPHER_CHACHA20_POLY1305 || c == IMB_CIPHER_CHACHA20) && it->key.n == 32) {
                        /* the SIMD kernels keep the state transposed: each key word broadcast to every lane */
                        for (int w = 0; w < 8; w++) {
                                uint8_t b[16];

                                for (int j = 0; j < 4; j++)
                                        memcpy(b + 4 * j, it->key.p + 4 * w, 4);
                                add_secret(idx, "chacha20-key-word-broadcast", b, sizeof(b));
                        }
                }
        }
        if (k->akey_set) {
                const size_t hs = hmac_state_size(h);

                if (hs) {
                        add_secret(idx, "hmac-ipad-state", k->ipad, hs);
                        add_secret(idx, "hmac-opad-state", k->opad, hs);
                }
                switch (h) {
                case IMB_AUTH_AES_XCBC:
                        add_secret(idx, "xcbc-k1-schedule", k->k1_exp, 11 * 16);
                        add_secret(idx, "xcbc-k2", k->k2, 16);
                        add_secret(idx, "xcbc-k3", k->k3, 16);
                        break;
                case IMB_AUTH_AES_CMAC:
                case IMB_AUTH_AES_CMAC_BITLEN:
                        add_secret(idx, "cmac-schedule", k->k1_exp, 11 * 16);
                        add_secret(idx, "cmac-dec-schedule", k->dec, 11 * 16);
                        add_secret(idx, "cmac-subkey1", k->k2, 16);
                        add_secret(idx, "cmac-subkey2", k->k3, 16);
                        break;
                case IMB_AUTH_AES_CMAC_256:
                        add_secret(idx, "cmac-schedule", k->k1_exp, 15 * 16);
                        add_secret(idx, "cmac-dec-schedule", k->dec, 15 * 16);
                        add_secret(idx, "cmac-subkey1", k->k2, 16);
                        add_secret(idx, "cmac-subkey2", k->k3, 16);
                        break;
                case IMB_AUTH_AES_GMAC_128:
                case IMB_AUTH_AES_GMAC_192:
                case IMB_AUTH_AES_GMAC_256:
                case IMB_AUTH_GHASH:
                        add_secret(idx, "ghash-key-data", &k->gmac, sizeof(k->gmac));
                        break;
                case IMB_AUTH_SNOW3G_UIA2_BITLEN:
                        add_secret(idx, "snow3g-schedule", k->snow3g_a,
                                   IMB_SNOW3G_KEY_SCHED_SIZE(rmgr));
                        break;
                case IMB_AUTH_KASUMI_UIA1:
                        add_secret(idx, "kasumi-schedule", &k->kas_a, sizeof(k->kas_a));
                        break;
                default:
                        break;
                }
        }

        /* plaintext */
        const uint8_t *text = pt->n ? pt->p : it->msg.p;
        const size_t tn = pt->n ? pt->n : it->msg.n;

        if (c != IMB_CIPHER_NULL) {
                cipher_range(it, &o, &l);
                if (it->dir == IMB_DIR_ENCRYPT || pt->n) {
                        if (o + l <= tn)
                                add_secret(idx, "plaintext", text + o, l);
                }
                /* the other side of the cipher is public */
                if (it->dir == IMB_DIR_DECRYPT)
                        add_public(it->msg.p, it->msg.n);
        } else if (h != IMB_AUTH_NULL) {
                hash_range(it, &o, &l);
                add_secret(idx, "hash-input", it->msg.p + o, l);
        }
        add_public(it->iv.p, it->iv.n);
        add_public(it->aiv.p, it->aiv.n);
        add_public(it->aad.p, it->aad.n);
}

/* ------------------------------------------------------------------------------------------ */
/* reporting                                                                                   */
/* ------------------------------------------------------------------------------------------ */
static void
where_mgr(const uint8_t *p, char *out, const size_t outsz)
{
        const size_t off = (size_t) (p - (const uint8_t *) tmgr);

        if (off < sizeof(IMB_MGR)) {
                if (off >= offsetof(IMB_MGR, jobs) && off < offsetof(IMB_MGR, jobs) + sizeof(tmgr->jobs))
                        snprintf(out, outsz, "IMB_MGR.jobs[%zu]+0x%zx",
                                 (off - offsetof(IMB_MGR, jobs)) / sizeof(IMB_JOB),
                                 (off - offsetof(IMB_MGR, jobs)) % sizeof(IMB_JOB));
                else
                        snprintf(out, outsz, "IMB_MGR+0x%zx", off);
                return;
        }
        for (int i = 0; i < N_OOO; i++) {
                const uint8_t *o = *(uint8_t *const *) ((const uint8_t *) tmgr + ooo_tab[i].ptr_off);

                if (o == NULL || p < o || p >= o + ooo_tab[i].d->size)
                        continue;
                const size_t fo = (size_t) (p - o);

                for (size_t m = 0; m < sizeof(member_tab) / sizeof(member_tab[0]); m++)
                        if (strcmp(member_tab[m].type, ooo_tab[i].d->type) == 0 &&
                            fo >= member_tab[m].off && fo < member_tab[m].off + member_tab[m].size) {
                                snprintf(out, outsz, "%s.%s+0x%zx", ooo_tab[i].name,
                                         member_tab[m].member, fo - member_tab[m].off);
                                return;
                        }
                snprintf(out, outsz, "%s+0x%zx", ooo_tab[i].name, fo);
                return;
        }
        snprintf(out, outsz, "mgr-memory+0x%zx", off);
}

static const char *only_class; /* final pass: report only secrets of this class (the others were reported) */

static void
report_hit(const char *kind, const char *where, const uint8_t *at, const uint32_t sec,
           const uint32_t off, const uint32_t len, const int by_call, const uint64_t by_slot,
           const uint64_t slot)
{
        imbh_str s = { 0 };

        if (only_class != NULL && strcmp(secs[sec].cls, only_class) != 0)
                return;

        n_hits++;
        imbh_str_add(&s, "HIT sid=%s var=%s ep=%d call=%d fn=%s kind=%s where=%s len=%u secret=%d:%s+%u leftby=%d:%s bytes=",
                     cur_sid, var_name, cur_ep, call_no, slot_name(slot), kind, where, len,
                     secs[sec].item, secs[sec].cls, off, by_call, slot_name(by_slot));
        imbh_str_hex(&s, at, len > 32 ? 32 : len);
        puts(s.s);
        free(s.s);
}

/* scan [p, p+n) ; merge runs of consecutive windows of the same secret object.
 * cb(start, sec, off, len) is called once per run. */
typedef void (*hit_cb)(const uint8_t *at, uint32_t sec, uint32_t off, uint32_t len, void *ctx);

static void
scan_region(const uint8_t *p, const size_t n, hit_cb cb, void *ctx)
{
        if (n < 8)
                return;
        size_t i = 0;

        while (i + 8 <= n) {
                const sent *e = stab_find(ld64(p + i));

                if (e == NULL || is_public(p + i)) {
                        i++;
                        continue;
                }
                const uint32_t sec = e->sec - 1;
                uint32_t off = e->off;
                size_t j = i + 1;

                /* extend while the following bytes continue the same secret object */
                while (j + 8 <= n && off + (j - i) + 8 <= secs[sec].n &&
                       p[j + 7] == secs[sec].p[off + (j - i) + 7])
                        j++;
                cb(p + i, sec, off, (uint32_t) (j - i) + 7, ctx);
                i = j + 7;
        }
}

/* ------------------------------------------------------------------------------------------ */
/* stack                                                                                       */
/* ------------------------------------------------------------------------------------------ */
static void
stack_reset(void)
{
        memset(pstack_base, 0, PSTACK_SIZE);
        n_pends = 0;
}

static void
stack_cb(const uint8_t *at, uint32_t sec, uint32_t off, uint32_t len, void *ctx)
{
        const uint64_t slot = *(const uint64_t *) ctx;

        for (int i = 0; i < n_pends; i++)
                if (pends[i].addr == at && pends[i].sec == sec && pends[i].off == off)
                        return;
        if (n_pends == cap_pends) {
                cap_pends = cap_pends ? cap_pends * 2 : 64;
                pends = realloc(pends, (size_t) cap_pends * sizeof(pend));
        }
        pends[n_pends++] = (pend){ (uint8_t *) at, sec, off, len, call_no, slot, 0 };
}

static void
stack_scan(uint64_t slot)
{
        const uint64_t *w = (const uint64_t *) pstack_base;
        const size_t nw = (size_t) (k13_call_rsp - pstack_base) / 8;
        size_t lo = 0;

        while (lo < nw && w[lo] == 0)
                lo++;
        if (lo == nw)
                return;
        scan_region((const uint8_t *) &w[lo], (nw - lo) * 8, stack_cb, &slot);
}

static void
stack_report(const uint64_t slot)
{
        for (int i = 0; i < n_pends; i++) {
                pend *p = &pends[i];
                char where[64];

                if (p->reported)
                        continue;
                /* still there? (a later call may have overwritten it) */
                if (p->off + 8 > secs[p->sec].n || memcmp(p->addr, secs[p->sec].p + p->off, 8) != 0)
                        continue;
                p->reported = 1;
                snprintf(where, sizeof(where), "rsp-0x%zx", (size_t) (k13_call_rsp - p->addr));
                report_hit("stack", where, p->addr, p->sec, p->off, p->len, p->call, p->slot, slot);
        }
}

/* ------------------------------------------------------------------------------------------ */
/* registers                                                                                   */
/* ------------------------------------------------------------------------------------------ */
struct regctx {
        const char *name;
        int idx;
        const uint8_t *base;
        uint64_t slot;
};

static void
reg_cb(const uint8_t *at, uint32_t sec, uint32_t off, uint32_t len, void *vctx)
{
        const struct regctx *c = vctx;
        char where[48];

        if (c->idx >= 0)
                snprintf(where, sizeof(where), "%s%d+%zu", c->name, c->idx, (size_t) (at - c->base));
        else
                snprintf(where, sizeof(where), "%s", c->name);
        report_hit("reg", where, at, sec, off, len, call_no, c->slot, c->slot);
}

static void
regs_scan(const uint64_t slot)
{
        struct regctx c;

        c.slot = slot;
        /* index of each GPR in k13_pre (argument registers), -1 otherwise */
        static const int pre_idx[16] = { -1, -1, 3, 2, 1, 0, -1, -1, 4, 5, -1, -1, -1, -1, -1, -1 };

        for (int i = 0; i < 16; i++) {
                /* an argument register the callee never wrote still holds what the caller left there */
                if (pre_idx[i] >= 0 && k13_dump.gpr[i] == k13_pre[pre_idx[i]])
                        continue;
                c.name = gpr_names[i];
                c.idx = -1;
                c.base = (const uint8_t *) &k13_dump.gpr[i];
                scan_region(c.base, 8, reg_cb, &c);
        }
        const int nv = k13_simd_level == 2 ? 32 : 16;
        const size_t vl = k13_simd_level == 2 ? 64 : k13_simd_level == 1 ? 32 : 16;

        for (int i = 0; i < nv; i++) {
                c.name = k13_simd_level == 2 ? "zmm" : k13_simd_level == 1 ? "ymm" : "xmm";
                c.idx = i;
                c.base = k13_dump.zmm[i];
                scan_region(c.base, vl, reg_cb, &c);
        }
        if (k13_simd_level == 2)
                for (int i = 0; i < 8; i++) {
                        c.name = "k";
                        c.idx = i;
                        c.base = (const uint8_t *) &k13_dump.k[i];
                        scan_region(c.base, 8, reg_cb, &c);
                }
}

/* ------------------------------------------------------------------------------------------ */
/* manager memory                                                                              */
/* ------------------------------------------------------------------------------------------ */
static uint8_t *mgr_reported; /* one flag per byte: already reported in this schedule */

static void
mgr_cb(const uint8_t *at, uint32_t sec, uint32_t off, uint32_t len, void *ctx)
{
        const uint64_t slot = *(const uint64_t *) ctx;
        const size_t o = (size_t) (at - (const uint8_t *) tmgr);
        char where[128];

        if (mgr_reported[o])
                return;
        memset(mgr_reported + o, 1, len);
        where_mgr(at, where, sizeof(where));
        report_hit("mgr", where, at, sec, off, len, call_no, slot, slot);
}

#define MBLK 256
static void
mgr_scan(uint64_t slot, const int full)
{
        const uint8_t *m = (const uint8_t *) tmgr;

        for (size_t b = 0; b < mgr_size; b += MBLK) {
                const size_t n = mgr_size - b < MBLK ? mgr_size - b : MBLK;

                if (!full && memcmp(m + b, mgr_shadow + b, n) == 0)
                        continue;
                memcpy(mgr_shadow + b, m + b, n);
                /* windows may straddle block borders */
                const size_t s = b >= 7 ? b - 7 : 0;
                const size_t e = b + n + 7 <= mgr_size ? b + n + 7 : mgr_size;

                scan_region(m + s, e - s, mgr_cb, &slot);
        }
}

/* ------------------------------------------------------------------------------------------ */
/* storage invariant: a lane without a job holds only reset images                             */
/* ------------------------------------------------------------------------------------------ */
/* first byte of row r of a lane for the row-structured kinds */
static size_t zuc_row_stride = 64; /* ZucState rows are packed by the number of lanes: sse 4, avx2 8, avx512 16 */

static int
field_nonzero(const uint8_t *o, const odef *d, const fdef *f, const int lane)
{
        if (f->kind == F_LANE) {
                const uint8_t *p = o + f->base + (size_t) lane * f->stride;

                for (size_t i = 0; i < f->len; i++)
                        if (p[i])
                                return 1;
                return 0;
        }
        if (f->kind == F_ZUCKS) {
                const uint8_t *p = o + f->base + (size_t) (lane % 4) * 512 + (size_t) (lane / 4) * 16;

                for (size_t r = 0; r < f->nrows; r++)
                        for (size_t i = 0; i < f->len; i++)
                                if (p[r * f->row_stride + i])
                                        return 1;
                return 0;
        }
        if (f->ni_stride && d->tnl_off && *(const uint32_t *) (o + d->tnl_off) == 2) {
                /* SHA-NI managers: two lanes, the digest words of a lane are contiguous */
                if (lane >= 2)
                        return 0;
                const uint8_t *p = o + f->base + (size_t) lane * f->ni_stride;

                for (size_t i = 0; i < f->nrows * f->len; i++)
                        if (p[i])
                                return 1;
                return 0;
        }
        const size_t rs = f->row_stride ? f->row_stride : zuc_row_stride;

        if (f->row_stride == 0 && (size_t) lane * f->stride >= rs)
                return 0; /* no such lane on this architecture */
        for (size_t r = 0; r < f->nrows; r++) {
                const uint8_t *p = o + f->base + r * rs + (size_t) lane * f->stride;

                for (size_t i = 0; i < f->len; i++)
                        if (p[i])
                                return 1;
        }
        return 0;
}

/* returns 1 when no lane of any manager holds a job */
static int
storage_check(const uint64_t slot, const int record)
{
        static uint8_t now[64][MAX_FIELDS];
        int busy = 0;

        if (record)
                memset(now, 0, sizeof(now));
        for (int i = 0; i < N_OOO; i++) {
                const odef *d = ooo_tab[i].d;
                const uint8_t *o = *(uint8_t *const *) ((const uint8_t *) tmgr + ooo_tab[i].ptr_off);

                if (o == NULL)
                        continue;
                for (int l = 0; l < d->nlanes; l++) {
                        const void *job = *(void *const *) (o + d->jil_base + (size_t) l * d->jil_stride);

                        if (job != NULL)
                                busy++;
                        if (!record)
                                continue;
                        for (int f = 0; f < d->nf; f++) {
                                dstat *s = &dstats[i][f];
                                const int nz = field_nonzero(o, d, &d->f[f], l);

                                if (job != NULL) {
                                        if (nz)
                                                s->used = 1;
                                        continue;
                                }
                                tot_freechecks++;
                                if (!nz)
                                        continue;
                                if (s->count++ == 0) {
                                        s->first_call = call_no;
                                        s->first_slot = slot;
                                }
                                s->lanes |= 1u << l;
                                now[i][f] = 1;
                        }
                }
        }
        if (record && busy == 0)
                for (int i = 0; i < N_OOO; i++)
                        for (int f = 0; f < ooo_tab[i].d->nf; f++)
                                if (now[i][f])
                                        dstats[i][f].idle_seen = 1;
        return busy == 0;
}

/* ------------------------------------------------------------------------------------------ */
/* the hook                                                                                    */
/* ------------------------------------------------------------------------------------------ */
static int prep_phase;

void
k13_post(const uint64_t slot)
{
        if (!sched_active)
                return;
        call_no++;
        tot_calls++;
        const int idle = storage_check(slot, 1);

        stack_scan(slot);
        if (!idle)
                return;
        n_idle++;
        tot_idle++;
        regs_scan(slot);
        stack_report(slot);
        if (!prep_phase)
                mgr_scan(slot, 0);
}

/* exported helpers routed through spare slots (behind the handlers of the manager) */
#define K13_SLOT_HMAC_IPAD_OPAD (K13_NSLOTS - 1)
typedef void (*k13_ipad_opad_fn)(IMB_MGR *, const IMB_HASH_ALG, const void *, const size_t, void *, void *);

static void
k13_hmac_ipad_opad(IMB_MGR *mb_mgr, const IMB_HASH_ALG sha_type, const void *pkey, const size_t key_len, void *ipad_hash,
                   void *opad_hash)
{
        if (!sched_active || mb_mgr != tmgr) {
                imb_hmac_ipad_opad(mb_mgr, sha_type, pkey, key_len, ipad_hash, opad_hash);
                return;
        }
        k13_orig[K13_SLOT_HMAC_IPAD_OPAD] = (void *) imb_hmac_ipad_opad;
        snprintf(slot_names[K13_SLOT_HMAC_IPAD_OPAD], sizeof(slot_names[0]), "imb_hmac_ipad_opad");
        k13_ipad_opad_fn f = (k13_ipad_opad_fn) (void *) (k13_stubs + 16 * K13_SLOT_HMAC_IPAD_OPAD);
        uint8_t scratch[2][128];

        /* the application may ask for one of the two outputs only: same secrets, other paths through the helper */
        f(mb_mgr, sha_type, pkey, key_len, scratch[0], NULL);
        f(mb_mgr, sha_type, pkey, key_len, NULL, scratch[1]);
        f(mb_mgr, sha_type, pkey, key_len, ipad_hash, opad_hash);
        memset(scratch, 0, sizeof(scratch));
}

static void
hooks_install(IMB_MGR *m)
{
        void **slots = (void **) &m->get_next_job;

        for (int i = 0; i < n_slots; i++) {
                k13_orig[i] = slots[i];
                if (slots[i] != NULL)
                        slots[i] = k13_stubs + 16 * i;
        }
}

/* ------------------------------------------------------------------------------------------ */
/* managers                                                                                    */
/* ------------------------------------------------------------------------------------------ */
static IMB_MGR *
make_mgr(const char *variant)
{
        char arch[16] = { 0 };
        unsigned long long flags = 0;
        const char *c = strchr(variant, ':');

        if (c == NULL || c[1] != 'f' || (size_t) (c - variant) >= sizeof(arch)) {
                fprintf(stderr, "k13: bad variant '%s'\n", variant);
                exit(2);
        }
        memcpy(arch, variant, (size_t) (c - variant));
        flags = strtoull(c + 2, NULL, 10);
        IMB_MGR *m = alloc_mb_mgr(flags);

        if (m == NULL) {
                fprintf(stderr, "k13: alloc_mb_mgr failed\n");
                exit(2);
        }
        if (strcmp(arch, "sse") == 0)
                init_mb_mgr_sse(m);
        else if (strcmp(arch, "avx2") == 0)
                init_mb_mgr_avx2(m);
        else if (strcmp(arch, "avx512") == 0)
                init_mb_mgr_avx512(m);
        else {
                fprintf(stderr, "k13: bad arch '%s'\n", arch);
                exit(2);
        }
        if (imb_get_errno(m) != 0) {
                fprintf(stderr, "k13: init failed: %s\n", imb_get_strerror(imb_get_errno(m)));
                exit(2);
        }
        if (!(m->features & IMB_FEATURE_SAFE_DATA)) {
                fprintf(stderr, "k13: library built without SAFE_DATA\n");
                exit(3);
        }
        return m;
}

/* ------------------------------------------------------------------------------------------ */
/* schedule runner                                                                             */
/* ------------------------------------------------------------------------------------------ */
/* how much of a residue is public: every non-zero 4-byte word (transposed rows) or 8-byte window
 * (contiguous fields) is looked up in the public buffers of the schedule */
static int
word_is_public(const uint8_t *w, const size_t n)
{
        for (int i = 0; i < n_pubs; i++)
                if (memmem(pubs[i].p, pubs[i].n, w, n) != NULL)
                        return 1;
        return 0;
}

static void
flush_dirty(void)
{
        for (int i = 0; i < N_OOO; i++)
                for (int f = 0; f < ooo_tab[i].d->nf; f++) {
                        dstat *s = &dstats[i][f];

                        if (s->count) {
                                const odef *d = ooo_tab[i].d;
                                const fdef *fd = &d->f[f];
                                const uint8_t *o = *(uint8_t *const *) ((const uint8_t *) tmgr + ooo_tab[i].ptr_off);
                                imbh_str now = { 0 };
                                int lane = -1, units = 0, pub = 0;

                                /* the first lane that is free and dirty right now */
                                for (int l = 0; l < d->nlanes && lane < 0; l++)
                                        if (*(void *const *) (o + d->jil_base + (size_t) l * d->jil_stride) == NULL &&
                                            field_nonzero(o, d, fd, l))
                                                lane = l;
                                if (lane >= 0) {
                                        const int ni = fd->kind == F_ROWS && fd->ni_stride && d->tnl_off &&
                                                       *(const uint32_t *) (o + d->tnl_off) == 2;
                                        const size_t rs = fd->row_stride ? fd->row_stride : zuc_row_stride;
                                        const size_t nr = ((fd->kind == F_ROWS && !ni) || fd->kind == F_ZUCKS) ? fd->nrows : 1;
                                        const size_t ln = fd->kind == F_ROWS ? (ni ? fd->nrows * fd->len : fd->len) : fd->len;

                                        for (size_t r = 0; r < nr; r++) {
                                                const uint8_t *q = fd->kind == F_LANE ? o + fd->base + (size_t) lane * fd->stride
                                                                   : fd->kind == F_ZUCKS
                                                                           ? o + fd->base + (size_t) (lane % 4) * 512 + (size_t) (lane / 4) * 16 + r * fd->row_stride
                                                                   : ni ? o + fd->base + (size_t) lane * fd->ni_stride
                                                                        : o + fd->base + r * rs + (size_t) lane * fd->stride;

                                                if (now.len < 400)
                                                        imbh_str_hex(&now, q, ln);
                                                if (nr > 1 && fd->kind != F_ZUCKS) { /* transposed words */
                                                        static const uint8_t z[8];

                                                        if (memcmp(q, z, ln) != 0) {
                                                                units++;
                                                                pub += word_is_public(q, ln);
                                                        }
                                                } else {
                                                        for (size_t b = 0; b + 8 <= ln; b++)
                                                                if (window_ok(ld64(q + b))) {
                                                                        units++;
                                                                        pub += word_is_public(q + b, 8);
                                                                }
                                                }
                                        }
                                }
                                n_dirty++;
                                printf("DIRTY sid=%s var=%s ep=%d ooo=%s field=%s lanes=%x first_call=%d first_fn=%s idle_seen=%d count=%lu lane=%d public=%d/%d now=%s\n",
                                       cur_sid, var_name, cur_ep, ooo_tab[i].name, fd->name, s->lanes,
                                       s->first_call, slot_name(s->first_slot), s->idle_seen ? 1 : 0,
                                       s->count, lane, pub, units, now.s ? now.s : "-");
                                free(now.s);
                        }
                        if (s->used && !quiet)
                                printf("USED sid=%s var=%s ooo=%s field=%s\n", cur_sid, var_name,
                                       ooo_tab[i].name, ooo_tab[i].d->f[f].name);
                }
}

/* ------------------------------------------------------------------------------------------ */
/* entry point 7: streaming direct API with a context owned by this harness.  The context is
 * caller memory, but the library promises to wipe what it kept there once the operation is
 * finalised (SAFE_DATA blocks of chacha20_poly1305.c, gcm finalize); after FINALIZE the context
 * is scanned like manager memory (kind=ctx). */
static uint8_t *ctx_buf;
static size_t ctx_len;
static const char *ctx_name;

static void
ctx_cb(const uint8_t *at, uint32_t sec, uint32_t off, uint32_t len, void *vctx)
{
        char where[64];

        (void) vctx;
        snprintf(where, sizeof(where), "%s+0x%zx", ctx_name, (size_t) (at - ctx_buf));
        report_hit("ctx", where, at, sec, off, len, call_no, 999, 999);
}

static void
run_ctx_direct(imbh_run *r, const int idx)
{
        const imbh_item *it = r->it;
        const struct imbh_keys *k = r->keys;
        uint8_t *dbase = it->inplace ? r->src : r->dst;
        const uint8_t *src = r->src + it->coff;
        uint8_t *dst = dbase + dst_ptr_offset(it);
        const uint64_t len = it->clen;
        const size_t half = (size_t) (len / 2) & ~(size_t) 15;

        r->done = 1;
        r->status = IMB_STATUS_COMPLETED;
        if (it->cipher == IMB_CIPHER_CHACHA20_POLY1305 && it->key.n == 32 && it->iv.n == 12) {
                struct chacha20_poly1305_context_data *ctx = (void *) ctx_buf;

                ctx_len = sizeof(*ctx);
                ctx_name = "chacha20_poly1305_context_data";
                memset(ctx_buf, 0, ctx_len);
                IMB_CHACHA20_POLY1305_INIT(tmgr, k->enc_ptr, ctx, r->iv, r->aad, it->aad.n);
                if (it->dir == IMB_DIR_ENCRYPT) {
                        IMB_CHACHA20_POLY1305_ENC_UPDATE(tmgr, k->enc_ptr, ctx, dst, src, half);
                        IMB_CHACHA20_POLY1305_ENC_UPDATE(tmgr, k->enc_ptr, ctx, dst + half, src + half, len - half);
                        IMB_CHACHA20_POLY1305_ENC_FINALIZE(tmgr, ctx, r->tag, it->tag);
                } else {
                        IMB_CHACHA20_POLY1305_DEC_UPDATE(tmgr, k->enc_ptr, ctx, dst, src, half);
                        IMB_CHACHA20_POLY1305_DEC_UPDATE(tmgr, k->enc_ptr, ctx, dst + half, src + half, len - half);
                        IMB_CHACHA20_POLY1305_DEC_FINALIZE(tmgr, ctx, r->tag, it->tag);
                }
        } else if (it->cipher == IMB_CIPHER_GCM && it->iv.n == 12 &&
                   (it->key.n == 16 || it->key.n == 24 || it->key.n == 32)) {
                struct gcm_context_data *ctx = (void *) ctx_buf;
                const struct gcm_key_data *key = k->enc_ptr;

                ctx_len = sizeof(*ctx);
                ctx_name = "gcm_context_data";
                memset(ctx_buf, 0, ctx_len);
#define GCM_SEQ(B)                                                                                 \
        do {                                                                                       \
                IMB_AES##B##_GCM_INIT(tmgr, key, ctx, r->iv, r->aad, it->aad.n);                   \
                if (it->dir == IMB_DIR_ENCRYPT) {                                                  \
                        IMB_AES##B##_GCM_ENC_UPDATE(tmgr, key, ctx, dst, src, half);               \
                        IMB_AES##B##_GCM_ENC_UPDATE(tmgr, key, ctx, dst + half, src + half, len - half); \
                        IMB_AES##B##_GCM_ENC_FINALIZE(tmgr, key, ctx, r->tag, it->tag);            \
                } else {                                                                           \
                        IMB_AES##B##_GCM_DEC_UPDATE(tmgr, key, ctx, dst, src, half);               \
                        IMB_AES##B##_GCM_DEC_UPDATE(tmgr, key, ctx, dst + half, src + half, len - half); \
                        IMB_AES##B##_GCM_DEC_FINALIZE(tmgr, key, ctx, r->tag, it->tag);            \
                }                                                                                  \
        } while (0)
                if (it->key.n == 16)
                        GCM_SEQ(128);
                else if (it->key.n == 24)
                        GCM_SEQ(192);
                else
                        GCM_SEQ(256);
        } else {
                r->skip = "unsupported";
                return;
        }
        /* keystream of this item is known now */
        if (len >= 8) {
                uint8_t *ks = malloc((size_t) len);

                for (size_t j = 0; j < len; j++)
                        ks[j] = it->msg.p[it->coff + j] ^ dst[j];
                add_secret(idx, "keystream", ks, (size_t) len);
                free(ks);
        }
        scan_region(ctx_buf, ctx_len, ctx_cb, NULL);
}

/* entry point 8: QUIC header protection (direct multi-packet API).  Item i of the schedule lends its key; the number of
 * packets walks through the residues of the kernels' 4/8/16-wide loops.  Masks are public output, samples public input;
 * the call goes through the hooked handler, so registers, the library's stack and the manager are scanned right after it. */
static void
run_quic_hp(imbh_run *r, const int idx)
{
        static const int counts[] = { 1, 2, 3, 4, 5, 6, 7, 8, 9, 10, 13, 18, 17, 21, 32, 14 };
        const int np = counts[idx % (int) (sizeof(counts) / sizeof(counts[0]))];
        const imbh_item *it = r->it;
        const struct imbh_keys *k = r->keys;
        static uint8_t samples[32][16], masks[32][16];
        const void *src[32];
        void *dst[32];

        r->done = 1;
        r->status = IMB_STATUS_COMPLETED;
        for (int p = 0; p < np; p++) {
                for (int j = 0; j < 16; j++)
                        samples[p][j] = it->msg.n ? it->msg.p[(p * 16 + j) % it->msg.n] : (uint8_t) (p * 16 + j);
                memset(masks[p], 0, sizeof(masks[p]));
                src[p] = samples[p];
                dst[p] = masks[p];
        }
        add_public(samples, sizeof(samples));
        if (it->cipher == IMB_CIPHER_CHACHA20 && it->key.n == 32)
                imb_quic_hp_chacha20(tmgr, k->enc_ptr, dst, src, (uint64_t) np);
        else if (it->cipher == IMB_CIPHER_ECB && (it->key.n == 16 || it->key.n == 32))
                imb_quic_hp_aes_ecb(tmgr, k->enc, dst, src, (uint64_t) np,
                                    it->key.n == 16 ? IMB_KEY_128_BYTES : IMB_KEY_256_BYTES);
        else if ((it->cipher == IMB_CIPHER_GCM && (it->key.n == 16 || it->key.n == 32) && it->iv.n == 12) ||
                 (it->cipher == IMB_CIPHER_CHACHA20_POLY1305 && it->key.n == 32 && it->iv.n == 12)) {
                /* QUIC AEAD: np packets cut from the item's message, same key / IV / AAD */
                static uint8_t outb[32][96], tagb[32][16];
                const void *ivs[32], *aads[32];
                void *tags[32];
                uint64_t lens[32];
                const uint64_t plen = it->clen < 80 ? it->clen : 80;

                for (int p = 0; p < np; p++) {
                        src[p] = it->msg.p + it->coff;
                        dst[p] = outb[p];
                        tags[p] = tagb[p];
                        ivs[p] = r->iv;
                        aads[p] = r->aad;
                        lens[p] = plen > (uint64_t) p ? plen - (uint64_t) p : 0;
                }
                add_public(outb, sizeof(outb));
                add_public(tagb, sizeof(tagb));
                if (it->cipher == IMB_CIPHER_GCM)
                        imb_quic_aes_gcm(tmgr, k->enc_ptr, it->key.n == 16 ? IMB_KEY_128_BYTES : IMB_KEY_256_BYTES, IMB_DIR_ENCRYPT, dst,
                                         src, lens, ivs, aads, it->aad.n, tags, 16, (uint64_t) np);
                else
                        imb_quic_chacha20_poly1305(tmgr, k->enc_ptr, IMB_DIR_ENCRYPT, dst, src, lens, ivs, aads, it->aad.n, tags,
                                                   (uint64_t) np);
        } else
                r->skip = "unsupported";
}

static void
run_schedule(imbh_item *items, imbh_bytes *pts, const int n)
{
        imbh_run *runs[MAX_ITEMS];

        secrets_reset();
        memset(dstats, 0, sizeof(dstats));
        memset(mgr_reported, 0, mgr_size);
        n_hits = n_dirty = n_idle = call_no = 0;

        /* 1. what to look for: derived on the reference manager */
        for (int i = 0; i < n; i++) {
                imbh_run *ref = imbh_run_new(rmgr, &items[i]);

                collect_secrets(i, &items[i], ref->keys, &pts[i]);
                imbh_run_free(ref);
        }
        tot_windows += stab_used;

        /* 2. key preparation on the hooked manager */
        stack_reset();
        memcpy(mgr_shadow, tmgr, mgr_size);
        sched_active = 1;
        prep_phase = 1;
        for (int i = 0; i < n; i++)
                runs[i] = imbh_run_new(tmgr, &items[i]);
        prep_phase = 0;
        if (storage_check(999, 0))
                mgr_scan(999, 1);

        /* public: whatever the jobs are allowed to output */
        for (int i = 0; i < n; i++) {
                size_t len;
                const uint8_t *out = imbh_out_area(runs[i], &len);

                if (items[i].dir == IMB_DIR_ENCRYPT && items[i].cipher != IMB_CIPHER_NULL &&
                    out != NULL)
                        add_public(out, len);
                add_public(runs[i]->tag, runs[i]->tag_room);
        }

        /* 3. the batch */
        if (cur_ep == 7) {
                for (int i = 0; i < n; i++)
                        if (runs[i]->prep_err == 0)
                                run_ctx_direct(runs[i], i);
        } else if (cur_ep == 8) {
                for (int i = 0; i < n; i++)
                        if (runs[i]->prep_err == 0)
                                run_quic_hp(runs[i], i);
        } else {
                imbh_run_batch(tmgr, cur_ep, runs, n);
        }
        sched_active = 0;

        /* 4. keystream = plaintext xor ciphertext of the stream modes, scanned in the final state */
        int added = 0;

        for (int i = 0; i < n; i++) {
                const imbh_item *it = &items[i];
                size_t o, l, len;

                if (!is_stream_cipher(it->cipher) || runs[i]->status != IMB_STATUS_COMPLETED)
                        continue;
                cipher_range(it, &o, &l);
                const uint8_t *out = imbh_out_area(runs[i], &len);
                /* job->dst = area + doff: output byte i of the cipher range sits at doff + i */
                const uint64_t doff = dst_ptr_offset(it);
                const uint8_t *in = it->msg.p + o;

                if (l < 8 || out == NULL || doff + l > len)
                        continue;
                uint8_t *ks = malloc(l);

                for (size_t j = 0; j < l; j++)
                        ks[j] = in[j] ^ out[doff + j];
                add_secret(i, "keystream", ks, l);
                free(ks);
                added++;
        }
        if (added && storage_check(999, 0)) {
                sched_active = 1; /* counters only */
                only_class = "keystream";
                regs_scan(999);
                n_pends = 0;
                stack_scan(999);
                stack_report(999);
                mgr_scan(999, 1);
                only_class = NULL;
                sched_active = 0;
        }
        flush_dirty();

        imbh_str st = { 0 };

        for (int i = 0; i < n; i++)
                imbh_str_add(&st, "%s%d", i ? "," : "",
                             runs[i]->skip ? -9 : runs[i]->status);
        printf("SCHED sid=%s var=%s ep=%d n=%d calls=%d idle=%d hits=%d dirty=%d windows=%zu status=%s\n",
               cur_sid, var_name, cur_ep, n, call_no, n_idle, n_hits, n_dirty, stab_used,
               st.s ? st.s : "-");
        free(st.s);
        fflush(stdout);
        tot_hits += (unsigned long) n_hits;
        tot_dirty += (unsigned long) n_dirty;
        tot_sched++;
        for (int i = 0; i < n; i++)
                imbh_run_free(runs[i]);
}

/* ------------------------------------------------------------------------------------------ */
/* self check: a handler that leaks on purpose                                                 */
/* ------------------------------------------------------------------------------------------ */
static uint8_t leak_secret[64];

static __attribute__((noinline)) IMB_JOB *
leaky_handler(IMB_MGR *m)
{
        volatile uint8_t buf[64];

        for (int i = 0; i < 48; i++)
                buf[i] = leak_secret[i];
        memcpy(&m->reserved[0], leak_secret + 8, 24);
        uint8_t *ooo = m->hmac_sha_1_ooo;

        memcpy(ooo + offsetof(MB_MGR_HMAC_SHA_1_OOO, ldata[1].extra_block) + 3, leak_secret + 16, 32);
        __asm__ volatile("movdqu %0, %%xmm5\n\tmov %1, %%r9" : : "m"(leak_secret[5]), "m"(leak_secret[24]) : "xmm5", "r9");
        return (IMB_JOB *) (uintptr_t) buf[1]; /* keep buf alive */
}

static int
selfcheck(void)
{
        imbh_item it;
        imbh_bytes none = { 0 };
        uint64_t seed = 42;

        imbh_fill_random(&seed, leak_secret, sizeof(leak_secret));
        secrets_reset();
        memset(dstats, 0, sizeof(dstats));
        memset(mgr_reported, 0, mgr_size);
        memset(&it, 0, sizeof(it));
        add_secret(0, "planted", leak_secret, sizeof(leak_secret));
        (void) none;
        stack_reset();
        memcpy(mgr_shadow, tmgr, mgr_size);
        snprintf(cur_sid, sizeof(cur_sid), "selfcheck");
        k13_orig[0] = (void *) leaky_handler;
        n_hits = 0;
        sched_active = 1;
        (void) IMB_GET_NEXT_JOB(tmgr);
        sched_active = 0;
        flush_dirty();
        printf("SELFCHECK hits=%d dirty=%d\n", n_hits, n_dirty);
        return 0;
}

/* ------------------------------------------------------------------------------------------ */
int
main(int argc, char **argv)
{
        const char *variant = NULL, *slots = NULL, *file = NULL;
        int do_selfcheck = 0;

        for (int i = 1; i < argc; i++) {
                if (strcmp(argv[i], "--variant") == 0 && i + 1 < argc)
                        variant = argv[++i];
                else if (strcmp(argv[i], "--slots") == 0 && i + 1 < argc)
                        slots = argv[++i];
                else if (strcmp(argv[i], "--quiet") == 0)
                        quiet = 1;
                else if (strcmp(argv[i], "--selfcheck") == 0)
                        do_selfcheck = 1;
                else if (strcmp(argv[i], "--list-variants") == 0) {
                        imbh_variant v[IMBH_MAX_VARIANTS];
                        const int n = imbh_enum_variants(v);

                        imbh_print_variants(stdout, v, n);
                        return 0;
                } else
                        file = argv[i];
        }
        if (variant == NULL || (file == NULL && !do_selfcheck)) {
                fprintf(stderr, "usage: k13_scan --variant <arch>:f<flags> [--slots F] [--quiet] <schedules|->\n");
                return 2;
        }
        var_name = variant;
        zuc_row_stride = strncmp(variant, "sse", 3) == 0 ? 16 : strncmp(variant, "avx2", 4) == 0 ? 32 : 64;
        n_slots = (int) ((offsetof(IMB_MGR, earliest_job) - offsetof(IMB_MGR, get_next_job)) / 8);
        if (n_slots > K13_NSLOTS) {
                fprintf(stderr, "k13: too many handlers\n");
                return 2;
        }
        if (slots != NULL)
                load_slot_names(slots);
        k13_simd_level = __builtin_cpu_supports("avx512f") && __builtin_cpu_supports("avx512bw")
                                 ? 2
                                 : (__builtin_cpu_supports("avx") ? 1 : 0);
        pstack_base = mmap(NULL, PSTACK_SIZE, PROT_READ | PROT_WRITE, MAP_PRIVATE | MAP_ANONYMOUS, -1, 0);
        if (pstack_base == MAP_FAILED) {
                perror("mmap");
                return 2;
        }
        k13_stack_top = pstack_base + PSTACK_SIZE;
        k13_call_rsp = k13_stack_top - 48;

        rmgr = make_mgr(variant);
        tmgr = make_mgr(variant);
        mgr_size = imb_get_mb_mgr_size();
        mgr_shadow = malloc(mgr_size);
        ctx_buf = aligned_alloc(64, 4096);
        mgr_reported = calloc(1, mgr_size);
        hooks_install(tmgr);
        fprintf(stderr, "k13: variant=%s used_arch=%u type=t%u handlers=%d simd_level=%u mgr_size=%zu\n",
                variant, tmgr->used_arch, (unsigned) tmgr->used_arch_type, n_slots, k13_simd_level,
                mgr_size);

        if (do_selfcheck)
                return selfcheck();

        FILE *f = strcmp(file, "-") == 0 ? stdin : fopen(file, "r");

        if (f == NULL) {
                perror(file);
                return 2;
        }
        static imbh_item items[MAX_ITEMS];
        static imbh_bytes pts[MAX_ITEMS];
        int n = 0, in_sched = 0;
        char *line = NULL;
        size_t cap = 0;
        ssize_t len;
        imbh_bytes next_pt = { 0 };

        while ((len = getline(&line, &cap, f)) > 0) {
                while (len > 0 && (line[len - 1] == '\n' || line[len - 1] == '\r'))
                        line[--len] = 0;
                if (len == 0 || line[0] == '#')
                        continue;
                if (line[0] == 'S' && line[1] == ' ') {
                        char *ep = strstr(line, "ep=");

                        sscanf(line + 2, "%63s", cur_sid);
                        cur_ep = ep ? atoi(ep + 3) : 0;
                        n = 0;
                        in_sched = 1;
                } else if (line[0] == 'P' && line[1] == ' ' && in_sched) {
                        free(next_pt.p);
                        next_pt.p = NULL;
                        next_pt.n = 0;
                        imbh_hex_parse(line + 2, strlen(line + 2), &next_pt);
                } else if (line[0] == 'I' && line[1] == ' ' && in_sched) {
                        if (n < MAX_ITEMS) {
                                imbh_item_parse(line + 2, &items[n]);
                                pts[n] = next_pt;
                                next_pt.p = NULL;
                                next_pt.n = 0;
                                n++;
                        }
                } else if (line[0] == 'E' && in_sched) {
                        if (n > 0)
                                run_schedule(items, pts, n);
                        for (int i = 0; i < n; i++) {
                                imbh_item_free(&items[i]);
                                free(pts[i].p);
                                pts[i].p = NULL;
                                pts[i].n = 0;
                        }
                        n = 0;
                        in_sched = 0;
                }
        }
        printf("TOTAL var=%s schedules=%lu calls=%lu idle_scans=%lu hits=%lu dirty=%lu windows=%lu free_lane_field_checks=%lu\n",
               var_name, tot_sched, tot_calls, tot_idle, tot_hits, tot_dirty, tot_windows,
               tot_freechecks);
        return 0;
}
