/* K2 (ring part): interpret an operation script against a real IMB_MGR and emit a
 * trace that the extracted Coq ring model (Mgr/Ring.v) replays.  After every call
 * the trace records the return value(s), earliest_job, next_job, the error code,
 * the completion bitmap of all 256 slots, and the set D of slots that became
 * complete during the call (the oracle input of the model).
 *
 * Usage: k2_ring <arch: sse|avx2|avx512> <flags> <script> > trace
 */
#include <stdio.h>
#include <stdlib.h>
#include <string.h>
#include <stdint.h>
#include <intel-ipsec-mb.h>

#define MAXLEN 512
static IMB_MGR *mgr;
static uint8_t key128[16] = { 1, 2, 3, 4, 5, 6, 7, 8, 9, 10, 11, 12, 13, 14, 15, 16 };
static DECLARE_ALIGNED(uint32_t enc_keys[15 * 4], 16);
static DECLARE_ALIGNED(uint32_t dec_keys[15 * 4], 16);
static uint8_t key256[32] = { 9, 8, 7, 6, 5, 4, 3, 2, 1, 10, 11, 12, 13, 14, 15, 16, 17, 18, 19, 20, 21, 22, 23, 24, 25, 26, 27, 28, 29, 30, 31, 32 };
static DECLARE_ALIGNED(uint32_t enc_keys256[15 * 4], 16);
static DECLARE_ALIGNED(uint32_t dec_keys256[15 * 4], 16);
static struct gcm_key_data gcm_key;
static uint8_t ipad[64], opad[64];

struct buf {
        uint8_t src[MAXLEN + 64];
        uint8_t dst[MAXLEN + 64];
        uint8_t tag[64];
        uint8_t iv[16];
};
/* buffers indexed by ring slot: a slot is never reused while its job is pending */
static struct buf bufs[IMB_MAX_JOBS];

static int
slot_of(const IMB_JOB *j)
{
        if (j == NULL)
                return -1;
        const char *b = (const char *) mgr->jobs;
        const char *p = (const char *) j;
        if (p < b || p >= b + sizeof(mgr->jobs))
                return -2;
        return (int) (p - b); /* byte offset */
}

/* expected verdict (IMB_ERR) for the job kinds that are invalid; 0 = valid */
static int
kind_errno(int kind)
{
        switch (kind) {
        case 4:
                return IMB_ERR_JOB_CIPH_LEN;
        case 9:
                return IMB_ERR_JOB_NULL_SRC;
        default:
                return 0;
        }
}

static void
fill(IMB_JOB *job, int kind, uint64_t id, unsigned len)
{
        const int slot = slot_of(job) / (int) sizeof(IMB_JOB);
        struct buf *b = &bufs[slot];
        unsigned i;

        if (len < 16)
                len = 16;
        if (len > MAXLEN)
                len = MAXLEN;
        len &= ~15u;
        memset(job, 0, sizeof(*job));
        for (i = 0; i < len; i++)
                b->src[i] = (uint8_t) (id * 7 + i);
        for (i = 0; i < 16; i++)
                b->iv[i] = (uint8_t) (id + i);
        job->src = b->src;
        job->dst = b->dst;
        job->iv = b->iv;
        job->iv_len_in_bytes = 16;
        job->enc_keys = enc_keys;
        job->dec_keys = dec_keys;
        job->key_len_in_bytes = 16;
        job->cipher_start_src_offset_in_bytes = 0;
        job->msg_len_to_cipher_in_bytes = len;
        job->hash_start_src_offset_in_bytes = 0;
        job->msg_len_to_hash_in_bytes = len;
        job->auth_tag_output = b->tag;
        job->user_data = (void *) (uintptr_t) id;
        job->chain_order = IMB_ORDER_CIPHER_HASH;
        job->cipher_direction = IMB_DIR_ENCRYPT;
        job->hash_alg = IMB_AUTH_NULL;
        switch (kind) {
        case 0: /* AES-128-CTR: completes immediately */
                job->cipher_mode = IMB_CIPHER_CNTR;
                break;
        case 1: /* AES-128-CBC encrypt: parked in a lane */
                job->cipher_mode = IMB_CIPHER_CBC;
                break;
        case 2: /* HMAC-SHA1 only: parked */
                job->cipher_mode = IMB_CIPHER_NULL;
                job->hash_alg = IMB_AUTH_HMAC_SHA_1;
                job->u.HMAC._hashed_auth_key_xor_ipad = ipad;
                job->u.HMAC._hashed_auth_key_xor_opad = opad;
                job->auth_tag_output_len_in_bytes = 12;
                break;
        case 3: /* chained: CBC encrypt then HMAC-SHA1 (two managers) */
                job->cipher_mode = IMB_CIPHER_CBC;
                job->hash_alg = IMB_AUTH_HMAC_SHA_1;
                job->u.HMAC._hashed_auth_key_xor_ipad = ipad;
                job->u.HMAC._hashed_auth_key_xor_opad = opad;
                job->auth_tag_output_len_in_bytes = 12;
                break;
        case 4: /* invalid: zero cipher length */
                job->cipher_mode = IMB_CIPHER_CBC;
                job->msg_len_to_cipher_in_bytes = 0;
                break;
        case 5: /* AES-128-CBC decrypt: immediate */
                job->cipher_mode = IMB_CIPHER_CBC;
                job->cipher_direction = IMB_DIR_DECRYPT;
                break;
        case 6: /* plain SHA-256: parked in the C multi-buffer manager */
                job->cipher_mode = IMB_CIPHER_NULL;
                job->hash_alg = IMB_AUTH_SHA_256;
                job->auth_tag_output_len_in_bytes = 32;
                break;
        case 7: /* hash then cipher: HMAC-SHA1 over ciphertext, then CBC decrypt */
                job->cipher_mode = IMB_CIPHER_CBC;
                job->cipher_direction = IMB_DIR_DECRYPT;
                job->chain_order = IMB_ORDER_HASH_CIPHER;
                job->hash_alg = IMB_AUTH_HMAC_SHA_1;
                job->u.HMAC._hashed_auth_key_xor_ipad = ipad;
                job->u.HMAC._hashed_auth_key_xor_opad = opad;
                job->auth_tag_output_len_in_bytes = 12;
                break;
        case 8: /* AES-128-GCM: bypasses chaining */
                job->cipher_mode = IMB_CIPHER_GCM;
                job->hash_alg = IMB_AUTH_AES_GMAC;
                job->enc_keys = &gcm_key;
                job->dec_keys = &gcm_key;
                job->iv_len_in_bytes = 12;
                job->u.GCM.aad = b->iv;
                job->u.GCM.aad_len_in_bytes = 8;
                job->auth_tag_output_len_in_bytes = 16;
                break;
        case 10: /* hash-then-cipher order with a NULL hash and a cipher that parks (CBC encrypt) */
                job->cipher_mode = IMB_CIPHER_CBC;
                job->chain_order = IMB_ORDER_HASH_CIPHER;
                break;
        case 11: /* hash then cipher, both park: HMAC-SHA1 over the plaintext, then CBC encrypt */
                job->cipher_mode = IMB_CIPHER_CBC;
                job->chain_order = IMB_ORDER_HASH_CIPHER;
                job->hash_alg = IMB_AUTH_HMAC_SHA_1;
                job->u.HMAC._hashed_auth_key_xor_ipad = ipad;
                job->u.HMAC._hashed_auth_key_xor_opad = opad;
                job->auth_tag_output_len_in_bytes = 12;
                break;
        case 12: /* DOCSIS-SEC-BPI + DOCSIS-CRC32, "no cipher, no CRC" (both lengths 0): a valid job that every */
        case 13: /* variant completes in its submit wrapper without entering a lane; 12/13 encrypt 128/256-bit key, */
        case 14: /* 14/15 decrypt 128/256-bit key */
        case 15:
                job->cipher_mode = IMB_CIPHER_DOCSIS_SEC_BPI;
                job->hash_alg = IMB_AUTH_DOCSIS_CRC32;
                job->cipher_direction = kind >= 14 ? IMB_DIR_DECRYPT : IMB_DIR_ENCRYPT;
                job->chain_order = kind >= 14 ? IMB_ORDER_CIPHER_HASH : IMB_ORDER_HASH_CIPHER;
                if (kind & 1) {
                        job->key_len_in_bytes = 32;
                        job->enc_keys = enc_keys256;
                        job->dec_keys = dec_keys256;
                }
                job->msg_len_to_cipher_in_bytes = 0;
                job->msg_len_to_hash_in_bytes = 0;
                job->auth_tag_output_len_in_bytes = 4;
                break;
        case 9: /* invalid: NULL source */
                job->cipher_mode = IMB_CIPHER_CBC;
                job->src = NULL;
                break;
        default:
                fprintf(stderr, "bad kind %d\n", kind);
                exit(2);
        }
}

static uint32_t before[IMB_MAX_JOBS], fresh[IMB_MAX_JOBS];

static void
snap(void)
{
        for (int i = 0; i < IMB_MAX_JOBS; i++) {
                before[i] = mgr->jobs[i].status;
                fresh[i] = 0;
        }
}

static void
print_D(void)
{
        int n = 0;
        printf(" D=");
        for (int i = 0; i < IMB_MAX_JOBS; i++) {
                const uint32_t a = mgr->jobs[i].status;
                if (a >= IMB_STATUS_COMPLETED && (fresh[i] || before[i] < IMB_STATUS_COMPLETED)) {
                        printf("%s%d", n ? "," : "", (int) (i * sizeof(IMB_JOB)));
                        n++;
                }
        }
        if (!n)
                printf("-");
}

static void
print_state(void)
{
        printf(" e=%d n=%d err=%d done=", mgr->earliest_job, mgr->next_job, mgr->imb_errno);
        for (int i = 0; i < IMB_MAX_JOBS; i += 4) {
                int v = 0;
                for (int k = 0; k < 4; k++)
                        if (mgr->jobs[i + k].status >= IMB_STATUS_COMPLETED)
                                v |= 1 << k;
                printf("%x", v);
        }
        printf("\n");
}

static void
print_job(const IMB_JOB *j)
{
        if (j == NULL)
                printf("none");
        else
                printf("%d:%llu:%d", slot_of(j), (unsigned long long) (uintptr_t) j->user_data,
                       (int) j->status);
}

int
main(int argc, char **argv)
{
        if (argc < 4) {
                fprintf(stderr, "usage: %s arch flags script\n", argv[0]);
                return 2;
        }
        const uint64_t flags = strtoull(argv[2], NULL, 0);
        mgr = alloc_mb_mgr(flags);
        if (!mgr)
                return 2;
        if (!strcmp(argv[1], "sse"))
                init_mb_mgr_sse(mgr);
        else if (!strcmp(argv[1], "avx2"))
                init_mb_mgr_avx2(mgr);
        else if (!strcmp(argv[1], "avx512"))
                init_mb_mgr_avx512(mgr);
        else
                init_mb_mgr_auto(mgr, NULL);
        if (imb_get_errno(mgr) != 0) {
                fprintf(stderr, "init failed: %d\n", imb_get_errno(mgr));
                return 2;
        }
        IMB_AES_KEYEXP_128(mgr, key128, enc_keys, dec_keys);
        IMB_AES_KEYEXP_256(mgr, key256, enc_keys256, dec_keys256);
        IMB_AES128_GCM_PRE(mgr, key128, &gcm_key);
        imb_hmac_ipad_opad(mgr, IMB_AUTH_HMAC_SHA_1, key128, 16, ipad, opad);
        printf("# sizeof_job=%d max_jobs=%d max_burst=%d arch=%d features=%llx\n", (int) sizeof(IMB_JOB),
               IMB_MAX_JOBS, IMB_MAX_BURST_SIZE, (int) mgr->used_arch,
               (unsigned long long) mgr->features);

        /* initial state as left by init (the power-up self test has used the ring) */
        printf("I |");
        print_state();

        FILE *f = fopen(argv[3], "r");
        if (!f)
                return 2;
        static char line[65536];
        static IMB_JOB *burst[IMB_MAX_BURST_SIZE * 2 + 8];
        uint32_t burst_n = 0;
        IMB_JOB *last_offered = NULL;

        while (fgets(line, sizeof(line), f)) {
                char *tok = strtok(line, " \n");
                if (!tok || tok[0] == '#')
                        continue;
                snap();
                if (!strcmp(tok, "N")) {
                        IMB_JOB *j = IMB_GET_NEXT_JOB(mgr);
                        last_offered = j;
                        printf("N | r=%d", slot_of(j));
                } else if (!strcmp(tok, "S") || !strcmp(tok, "SN")) {
                        /* SN: the application obtained its slot with an earlier IMB_GET_NEXT_JOB ("N"), made other calls
                         * (flush, get-completed, queue-size) and only now fills and submits it, without asking again */
                        const int again = strcmp(tok, "SN") != 0 || last_offered == NULL;
                        const int check = atoi(strtok(NULL, " \n"));
                        const int kind = atoi(strtok(NULL, " \n"));
                        const uint64_t id = strtoull(strtok(NULL, " \n"), NULL, 10);
                        const unsigned len = (unsigned) atoi(strtok(NULL, " \n"));
                        IMB_JOB *j = again ? IMB_GET_NEXT_JOB(mgr) : last_offered;
                        last_offered = NULL;
                        fill(j, kind, id, len);
                        fresh[slot_of(j) / sizeof(IMB_JOB)] = 1;
                        IMB_JOB *r = check ? IMB_SUBMIT_JOB(mgr) : IMB_SUBMIT_JOB_NOCHECK(mgr);
                        printf("S %d %d %llu", check, kind_errno(kind) ? kind_errno(kind) : -1,
                               (unsigned long long) id);
                        print_D();
                        printf(" | r=");
                        print_job(r);
                } else if (!strcmp(tok, "F")) {
                        IMB_JOB *r = IMB_FLUSH_JOB(mgr);
                        printf("F");
                        print_D();
                        printf(" | r=");
                        print_job(r);
                } else if (!strcmp(tok, "C")) {
                        IMB_JOB *r = IMB_GET_COMPLETED_JOB(mgr);
                        printf("C | r=");
                        print_job(r);
                } else if (!strcmp(tok, "Q")) {
                        const uint32_t q = IMB_QUEUE_SIZE(mgr);
                        printf("Q | r=%u", q);
                } else if (!strcmp(tok, "GB")) {
                        const int null_arr = atoi(strtok(NULL, " \n"));
                        const uint32_t n = (uint32_t) strtoul(strtok(NULL, " \n"), NULL, 10);
                        const uint32_t r = IMB_GET_NEXT_BURST(mgr, n, null_arr ? NULL : burst);
                        burst_n = r;
                        printf("GB %d %u | r=", null_arr, n);
                        if (r == 0)
                                printf("-");
                        for (uint32_t i = 0; i < r; i++)
                                printf("%s%d", i ? "," : "", slot_of(burst[i]));
                } else if (!strcmp(tok, "SB")) {
                        /* SB check n nullarr  then n triples kind:id:flags:len  (jobs come from last GB) */
                        const int check = atoi(strtok(NULL, " \n"));
                        uint32_t n = (uint32_t) strtoul(strtok(NULL, " \n"), NULL, 10);
                        const int null_arr = atoi(strtok(NULL, " \n"));
                        static IMB_JOB *arr[IMB_MAX_BURST_SIZE * 2 + 8];
                        /* the no-check entry point trusts its caller: only slots really offered */
                        if (!check && n > burst_n)
                                n = burst_n;
                        static IMB_JOB dummy;
                        uint32_t have = 0;
                        static int written[IMB_MAX_BURST_SIZE * 2 + 8];
                        static unsigned long long written_id[IMB_MAX_BURST_SIZE * 2 + 8];
                        int nwritten = 0;
                        printf("SB %d %u %d J=", check, n, null_arr);
                        char *t;
                        while ((t = strtok(NULL, " \n")) != NULL) {
                                int kind, fl;
                                unsigned long long id;
                                unsigned len;
                                if (sscanf(t, "%d:%llu:%d:%u", &kind, &id, &fl, &len) != 4)
                                        break;
                                if (!check && have >= n)
                                        break;
                                if (!check)
                                        fl = 0;
                                IMB_JOB *j = (have < burst_n) ? burst[have] : NULL;
                                int verdict = -1, suite_ok = 1, ptr;
                                if (j != NULL) {
                                        fill(j, kind, id, len);
                                        written_id[nwritten] = id;
                                        written[nwritten++] = slot_of(j);
                                        fresh[slot_of(j) / sizeof(IMB_JOB)] = 1;
                                        imb_set_session(mgr, j);
                                        if (kind_errno(kind))
                                                verdict = kind_errno(kind);
                                        if (fl & 4) { /* corrupt suite id */
                                                j->suite_id[1] ^= 1;
                                                suite_ok = 0;
                                        }
                                }
                                if (fl & 1) /* NULL job pointer */
                                        j = NULL;
                                if (fl & 2) { /* pointer that is not the expected ring slot */
                                        memset(&dummy, 0, sizeof(dummy));
                                        j = &dummy;
                                        id = 0; /* payload of the object actually passed */
                                }
                                arr[have] = j;
                                ptr = (j == NULL) ? -1 : slot_of(j);
                                printf("%s%d:%d:%d:%llu", have ? ";" : "", ptr, verdict, suite_ok, id);
                                have++;
                        }
                        if (have == 0)
                                printf("-");
                        /* ring slots the caller (this harness) has overwritten while filling jobs */
                        printf(" W=");
                        if (nwritten == 0)
                                printf("-");
                        for (int w = 0; w < nwritten; w++)
                                printf("%s%d:%llu", w ? "," : "", written[w], written_id[w]);
                        /* statuses as of now are the baseline for D (fill() zeroed the fresh ones) */
                        const uint32_t r = check ? IMB_SUBMIT_BURST(mgr, n, null_arr ? NULL : arr)
                                                 : IMB_SUBMIT_BURST_NOCHECK(mgr, n, null_arr ? NULL : arr);
                        print_D();
                        printf(" | r=%u:", r);
                        if (r == 0 && mgr->imb_errno != 0 && !null_arr && arr[0] != NULL &&
                            arr[0]->status == IMB_STATUS_INVALID_ARGS) {
                                printf("rej:");
                                print_job(arr[0]);
                        } else {
                                if (r == 0)
                                        printf("-");
                                for (uint32_t i = 0; i < r; i++) {
                                        printf("%s", i ? "," : "");
                                        print_job(arr[i]);
                                }
                        }
                        burst_n = 0;
                } else if (!strcmp(tok, "FB")) {
                        const int null_arr = atoi(strtok(NULL, " \n"));
                        const uint32_t mx = (uint32_t) strtoul(strtok(NULL, " \n"), NULL, 10);
                        static IMB_JOB *arr[IMB_MAX_JOBS + 8];
                        const uint32_t r = IMB_FLUSH_BURST(mgr, mx, null_arr ? NULL : arr);
                        printf("FB %d %u", null_arr, mx);
                        print_D();
                        printf(" | r=%u:", r);
                        if (r == 0)
                                printf("-");
                        for (uint32_t i = 0; i < r; i++) {
                                printf("%s", i ? "," : "");
                                print_job(arr[i]);
                        }
                } else {
                        fprintf(stderr, "bad op %s\n", tok);
                        return 2;
                }
                print_state();
        }
        fclose(f);
        free_mb_mgr(mgr);
        return 0;
}
