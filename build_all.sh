#!/bin/sh
# Build the Coq development (all files of _CoqProject), offline. Translators that regenerate
# coq/Gen/*.v from /repo run first; `make -k` so that one broken file does not hide the others.
cd "$(dirname "$0")"
for t in translators/t0_consts.py translators/t1_enums.py translators/t2_validate.py translators/t4_selftest.py \
         translators/t6_globals.py translators/t7_reset.py translators/t8_layout.py translators/t9_strerror.py \
         translators/t14_job.py translators/t1b_tables.py translators/t7_lookup_sizes.py translators/t3_isa.py; do
  if [ -f "$t" ]; then echo "== $t"; timeout 900 python3 "$t" || echo "translator $t failed (its check will report it)"; fi
done
if [ -f translators/t5_cfg.py ]; then
  echo "== translators/t5_cfg.py"; timeout 3000 python3 translators/t5_cfg.py --build .build/lib --out coq/Gen || echo "t5 failed"
fi
# generated files that the checks themselves produce at run time (sizes from the harnesses, reset images)
python3 - <<'PY' || echo "run-time generators failed (their checks will report it)"
import sys, os
sys.path.insert(0, os.getcwd())
from checks import common
try:
    from checks import c07
    c07.prepare("quick", 1)
except Exception as ex:
    print("c07.prepare:", repr(ex)[:300])
try:
    from checks import c15_gen
    c15_gen.run_translators()
    c15_gen.write_reset_images(c15_gen.build_k15())
except Exception as ex:
    print("c15_gen:", repr(ex)[:300])
PY
python3 - <<'PY'
import sys, os
sys.path.insert(0, os.getcwd())
from checks import common
ok, out = common.coq_make([], timeout=7200)
print("\n".join(l for l in out.splitlines() if not l.startswith(("COQC", "COQDEP")) and "Closed under the global context" not in l)[-3000:])
PY
exit 0
