#!/bin/sh
# Build the Coq development (all files of _CoqProject), offline. Translators that regenerate
# coq/Gen/*.v from /repo run first; `make -k` so that one broken file does not hide the others.
cd "$(dirname "$0")"
for t in translators/t0_consts.py translators/t1_enums.py translators/t2_validate.py translators/t4_selftest.py \
         translators/t6_globals.py translators/t7_reset.py translators/t8_layout.py translators/t9_strerror.py \
         translators/t14_job.py translators/t1b_tables.py translators/t7_lookup_sizes.py; do
  if [ -f "$t" ]; then echo "== $t"; timeout 900 python3 "$t" || echo "translator $t failed (its check will report it)"; fi
done
if [ -f translators/t5_cfg.py ]; then
  echo "== translators/t5_cfg.py"; timeout 3000 python3 translators/t5_cfg.py --build .build/lib --out coq/Gen || echo "t5 failed"
fi
cd coq
coq_makefile -f _CoqProject -o Makefile >/dev/null 2>&1
timeout 7200 make -k -j16 2>&1 | grep -v "^COQC\|^COQDEP\|Closed under the global context" | tail -40
exit 0
