(* ring_driver: replay a K2 trace (harness/k2_ring.c) on the extracted Coq ring model
   and report every point where model and library differ.
   usage: ring_driver trace  -> prints "OK <n> ops ..." or "MISMATCH line <n>: ..." lines *)
open Ring_model

let rec z_of_int (i : int) : z =
  if i = 0 then Z0 else if i > 0 then Zpos (pos_of_int i) else Zneg (pos_of_int (-i))
and pos_of_int (i : int) : positive =
  if i = 1 then XH else if i land 1 = 0 then XO (pos_of_int (i lsr 1)) else XI (pos_of_int (i lsr 1))

let rec int_of_pos = function XH -> 1 | XO p -> 2 * int_of_pos p | XI p -> 2 * int_of_pos p + 1
let int_of_z = function Z0 -> 0 | Zpos p -> int_of_pos p | Zneg p -> - (int_of_pos p)

let sz = int_of_z sIZEOF_IMB_JOB
let nj = int_of_z iMB_MAX_JOBS

(* keep function-valued fields shallow: tabulate after every step *)
let normalise (s : st) : st =
  let ts = Array.init nj (fun i -> s.stat (z_of_int (i * sz))) in
  let tc = Array.init nj (fun i -> s.cont (z_of_int (i * sz))) in
  let look (t : z array) (d : z -> z) (o : z) : z =
    let i = int_of_z o in
    if i >= 0 && i mod sz = 0 && i / sz < nj then t.(i / sz) else d o in
  let ds = s.stat and dc = s.cont in
  ignore ds; ignore dc;
  { s with stat = (fun o -> look ts (fun _ -> Z0) o); cont = (fun o -> look tc (fun _ -> Z0) o) }

let split_on c s = if s = "-" || s = "" then [] else String.split_on_char c s
let zlist s = List.map (fun x -> z_of_int (int_of_string x)) (split_on ',' s)

let kv tok key =
  let kl = String.length key in
  if String.length tok > kl && String.sub tok 0 (kl + 1) = key ^ "=" then
    Some (String.sub tok (kl + 1) (String.length tok - kl - 1))
  else None

let find toks key =
  let rec go = function
    | [] -> failwith ("missing " ^ key)
    | t :: r -> (match kv t key with Some v -> v | None -> go r) in
  go toks

let opt_verdict s = let v = int_of_string s in if v < 0 then None else Some (z_of_int v)

let job_str ((o, id), st) = Printf.sprintf "%d:%d:%d" (int_of_z o) (int_of_z id) (int_of_z st)

let out_str = function
  | OJob None -> "none"
  | OJob (Some j) -> job_str j
  | ONum n -> string_of_int (int_of_z n)
  | OSlots l -> if l = [] then "-" else String.concat "," (List.map (fun o -> string_of_int (int_of_z o)) l)
  | OJobs (n, l) ->
      Printf.sprintf "%d:%s" (int_of_z n) (if l = [] then "-" else String.concat "," (List.map job_str l))
  | OReject None -> "0:-"
  | OReject (Some j) -> "0:rej:" ^ job_str j

let done_str (s : st) =
  let b = Buffer.create 64 in
  let i = ref 0 in
  while !i < nj do
    let v = ref 0 in
    for k = 0 to 3 do
      if is_done s (z_of_int ((!i + k) * sz)) then v := !v lor (1 lsl k)
    done;
    Buffer.add_string b (Printf.sprintf "%x" !v);
    i := !i + 4
  done;
  Buffer.contents b

let parse_bjobs s =
  List.map (fun t ->
    match String.split_on_char ':' t with
    | [p; v; so; id] ->
        let p = int_of_string p in
        { bj_ptr = (if p = -1 then None else Some (z_of_int p));
          bj_verdict = opt_verdict v; bj_suite_ok = (so = "1"); bj_id = z_of_int (int_of_string id) }
    | _ -> failwith "bad bjob") (split_on ';' s)

let () =
  let ic = open_in Sys.argv.(1) in
  let s = ref (normalise r_init) in
  let lineno = ref 0 and nops = ref 0 and bad = ref 0 and contract_bad = ref 0 in
  let maxq = ref 0 and wraps = ref 0 and lastnext = ref 0 in
  (try
     while true do
       let line = input_line ic in
       incr lineno;
       if String.length line > 0 && line.[0] <> '#' then begin
         let toks = List.filter (fun x -> x <> "") (String.split_on_char ' ' line) in
         let bar = let rec idx i = function [] -> failwith "no |" | "|" :: _ -> i | _ :: r -> idx (i + 1) r in idx 0 toks in
         let pre = List.filteri (fun i _ -> i < bar) toks and post = List.filteri (fun i _ -> i > bar) toks in
         let d () = zlist (find pre "D") in
         (* candidate ops: for a burst submit the observed completions may belong to the
            submit phase (D) or to the fallback flush (D2); the trace is consistent if one split works *)
         if pre = ["I"] then begin
           let dn = find post "done" in
           let isdone i = (int_of_string ("0x" ^ String.make 1 dn.[i / 4]) lsr (i mod 4)) land 1 = 1 in
           s := normalise { earliest = z_of_int (int_of_string (find post "e"));
                            next = z_of_int (int_of_string (find post "n"));
                            stat = (fun o -> let i = int_of_z o / sz in
                                     if i >= 0 && i < nj && isdone i then z_of_int 3 else Z0);
                            cont = (fun _ -> Z0); errno = z_of_int (int_of_string (find post "err")) }
         end else begin
         let ops : op list =
           match pre with
           | "N" :: _ -> [GetNext]
           | "S" :: c :: v :: id :: _ -> [Submit (c = "1", opt_verdict v, z_of_int (int_of_string id), d ())]
           | "F" :: _ -> [Flush (d ())]
           | "C" :: _ -> [GetCompleted]
           | "Q" :: _ -> [QueueSize]
           | "GB" :: nl :: n :: _ -> [GetNextBurst (nl = "1", z_of_int (int_of_string n))]
           | "SB" :: c :: n :: nl :: _ ->
               let js = parse_bjobs (find pre "J") in
               let jo = if nl = "1" then None else Some js in
               let n = z_of_int (int_of_string n) in
               [SubmitBurst (c = "1", n, jo, d (), []); SubmitBurst (c = "1", n, jo, [], d ())]
           | "FB" :: nl :: m :: _ -> [FlushBurst (nl = "1", z_of_int (int_of_string m), d ())]
           | _ -> failwith ("bad trace line: " ^ line) in
         let exp_r = find post "r" and exp_e = int_of_string (find post "e")
         and exp_n = int_of_string (find post "n") and exp_err = int_of_string (find post "err")
         and exp_done = find post "done" in
         (* the caller's own writes into offered slots (it zeroes a job before filling it) *)
         (match pre with
          | "SB" :: _ ->
              let w = List.map (fun t -> match String.split_on_char ':' t with
                                         | [o; id] -> (z_of_int (int_of_string o), z_of_int (int_of_string id))
                                         | _ -> failwith "bad W") (split_on ',' (find pre "W")) in
              let old = !s in
              s := normalise { old with stat = (fun o -> if List.mem_assoc o w then Z0 else old.stat o);
                                        cont = (fun o -> try List.assoc o w with Not_found -> old.cont o) }
          | _ -> ());
         let try_op o =
           let ok = r_op_ok !s o in
           let ((s', out), _) = r_step !s o in
           let s' = normalise s' in
           let diffs = ref [] in
           let chk name a b = if a <> b then diffs := Printf.sprintf "%s model=%s lib=%s" name a b :: !diffs in
           chk "ret" (out_str out) exp_r;
           chk "earliest" (string_of_int (int_of_z s'.earliest)) (string_of_int exp_e);
           chk "next" (string_of_int (int_of_z s'.next)) (string_of_int exp_n);
           chk "errno" (string_of_int (int_of_z s'.errno)) (string_of_int exp_err);
           chk "done" (done_str s') exp_done;
           (ok, s', !diffs) in
         let results = List.map try_op ops in
         let good = List.filter (fun (ok, _, df) -> ok && df = []) results in
         (match good with
          | (_, s', _) :: _ -> s := s'
          | [] ->
              let (ok, s', df) = List.hd results in
              if df <> [] then begin
                incr bad;
                Printf.printf "MISMATCH line %d: %s || %s\n" !lineno (String.concat "; " df) line
              end else if not ok then begin
                incr contract_bad;
                Printf.printf "CONTRACT line %d: oracle/caller contract op_ok violated || %s\n" !lineno line
              end;
              (* resynchronise on the library's ring indices so later lines stay meaningful *)
              s := { s' with earliest = z_of_int exp_e; next = z_of_int exp_n; errno = z_of_int exp_err });
         incr nops;
         let q = int_of_z (r_queue_sz !s) in
         if q > !maxq then maxq := q;
         if exp_n < !lastnext then incr wraps;
         lastnext := exp_n
         end
       end
     done
   with End_of_file -> ());
  Printf.printf "SUMMARY ops=%d mismatches=%d contract=%d maxq=%d wraps=%d\n" !nops !bad !contract_bad !maxq !wraps
