(* footprint_driver: evaluate the extracted Coq contract (Struct/Footprint.v) on the job views
   printed by `k3_place --footprint` and print the same canonical text.
   input  line: FP id=<id> view=<18 comma separated integers> objs=... W=...
   output line: FP id=<id> objs=<name:size,...|-> W=<name:from:to:mf:ml,...|-> accepted=<0|1> *)
open Footprint_model

let rec pos_of_int (i : int) : positive =
  if i = 1 then XH else if i land 1 = 0 then XO (pos_of_int (i lsr 1)) else XI (pos_of_int (i lsr 1))
let n_of_int (i : int) : n = if i = 0 then N0 else Npos (pos_of_int i)
let rec int_of_pos = function XH -> 1 | XO p -> 2 * int_of_pos p | XI p -> 2 * int_of_pos p + 1
let int_of_n = function N0 -> 0 | Npos p -> int_of_pos p

let names = [| "src"; "dst"; "iv"; "aad"; "tag"; "enc_keys"; "dec_keys"; "ks0"; "ks1"; "ks2"; "next_iv";
               "ak0"; "ak1"; "ak2" |]

let () =
  let ic = if Array.length Sys.argv > 1 then open_in Sys.argv.(1) else stdin in
  (try
     while true do
       let line = input_line ic in
       if String.length line > 3 && String.sub line 0 3 = "FP " then begin
         let toks = String.split_on_char ' ' line in
         let get key =
           let kl = String.length key in
           let rec go = function
             | [] -> failwith ("missing " ^ key)
             | t :: r -> if String.length t > kl && String.sub t 0 (kl + 1) = key ^ "=" then
                           String.sub t (kl + 1) (String.length t - kl - 1) else go r in
           go toks in
         let v = Array.of_list (List.map (fun s -> n_of_int (int_of_string s)) (String.split_on_char ',' (get "view"))) in
         if Array.length v <> 18 then failwith "view needs 18 fields";
         let j = { fv_cipher = v.(0); fv_hash = v.(1); fv_dir = v.(2); fv_order = v.(3); fv_key_len = v.(4);
                   fv_coff = v.(5); fv_clen = v.(6); fv_hoff = v.(7); fv_hlen = v.(8); fv_iv_len = v.(9);
                   fv_tag_len = v.(10); fv_aad_len = v.(11); fv_aiv_len = v.(12); fv_akey_len = v.(13);
                   fv_src_size = v.(14); fv_pli = v.(15); fv_snow3g_ks = v.(16); fv_kasumi_ks = v.(17) } in
         let objs = List.map (fun (o, s) -> Printf.sprintf "%s:%d" names.(int_of_n o) (int_of_n s)) (fp_objs j) in
         let ws = List.map (fun (o, (a, (b, (mf, ml)))) ->
                      Printf.sprintf "%s:%d:%d:%02x:%02x" names.(int_of_n o) (int_of_n a) (int_of_n b) (int_of_n mf) (int_of_n ml))
                    (fp_W j) in
         let cat l = if l = [] then "-" else String.concat "," l in
         Printf.printf "FP id=%s objs=%s W=%s accepted=%d\n" (get "id") (cat objs) (cat ws)
           (if accepted j then 1 else 0)
       end
     done
   with End_of_file -> ());
  flush stdout
