(* keyprep_driver: run the extracted C11 key-preparation model (Spec/KeyPrep.v) on the case file
   read by harness/k11_keyprep.c and print lines in the same format with var=MODEL:
     id=<n> var=MODEL op=<name> [lay=<layout>] r=<int> o1=<hex> o2=<hex> o3=<hex>
   gcm_pre / gcm_precomp / ghash_pre print one line per GHASH table layout
   (lay=sse | avx2 | vaes_avx2 | vaes_avx512); o2 is the table only (the harness prints the whole
   union, the checker compares the prefix).
   usage: keyprep_driver casefile *)
open Keyprep_model

let rec pos_of_int (i : int) : positive =
  if i = 1 then XH else if i land 1 = 0 then XO (pos_of_int (i lsr 1)) else XI (pos_of_int (i lsr 1))
let n_of_int (i : int) : n = if i = 0 then N0 else Npos (pos_of_int i)

let rec bits_of_pos (p : positive) : bool list =
  match p with XH -> [true] | XO q -> false :: bits_of_pos q | XI q -> true :: bits_of_pos q
let bits_of_n = function N0 -> [] | Npos p -> bits_of_pos p
let int_of_n (x : n) : int =
  let rec go bs w acc = match bs with [] -> acc | b :: t -> go t (w * 2) (if b then acc + w else acc) in
  go (bits_of_n x) 1 0
let rec int_of_nat = function O -> 0 | S k -> 1 + int_of_nat k

let hex_of_bytes (l : bytes) : string =
  if l = [] then "-" else begin
    let b = Buffer.create 64 in
    List.iter (fun x -> Buffer.add_string b (Printf.sprintf "%02x" (int_of_n x))) l;
    Buffer.contents b
  end

let bytes_of_hex (s : string) : bytes =
  if s = "-" || s = "" then [] else begin
    let n = String.length s / 2 in
    List.init n (fun i -> n_of_int (int_of_string ("0x" ^ String.sub s (2 * i) 2)))
  end

let kv tok key =
  let kl = String.length key in
  if String.length tok > kl && String.sub tok 0 (kl + 1) = key ^ "=" then
    Some (String.sub tok (kl + 1) (String.length tok - kl - 1))
  else None
let find_opt toks key =
  let rec go = function [] -> None | t :: r -> (match kv t key with Some v -> Some v | None -> go r) in
  go toks
let find_def toks key d = match find_opt toks key with Some v -> v | None -> d

let hash_of_id = function
  | 1 -> Some h_SHA1 | 2 -> Some h_SHA224 | 3 -> Some h_SHA256 | 4 -> Some h_SHA384
  | 5 -> Some h_SHA512 | 7 -> Some h_MD5 | 48 -> Some h_SM3 | _ -> None

let layouts = [ ("sse", L_SSE); ("avx2", L_AVX2); ("vaes_avx2", L_VAES_AVX2); ("vaes_avx512", L_VAES_AVX512) ]

let line id op ?(lay = "") r o1 o2 o3 =
  Printf.printf "id=%s var=MODEL op=%s%s r=%d o1=%s o2=%s o3=%s\n" id op
    (if lay = "" then "" else " lay=" ^ lay) r (hex_of_bytes o1) (hex_of_bytes o2) (hex_of_bytes o3)

let err_key_len = 2032 (* IMB_ERR_KEY_LEN, checked against the header by checks/c11.py *)

let () =
  let err_key_len =
    if Array.length Sys.argv > 2 then int_of_string Sys.argv.(2) else err_key_len in
  let ic = open_in Sys.argv.(1) in
  (try
     while true do
       let l = input_line ic in
       if String.length l > 0 && l.[0] <> '#' then begin
         let toks = String.split_on_char ' ' l in
         let id = find_def toks "id" "0" and op = find_def toks "op" "" in
         let key = bytes_of_hex (find_def toks "key" "-") in
         let hash = int_of_string (find_def toks "hash" "0") in
         let num k = n_of_int (int_of_string (find_def toks k "0")) in
         (match op with
          | "aes_keyexp" -> let (e, d) = kp_aes_keyexp key in line id op 0 e d []
          | "cmac_subkey" -> let (k1, k2) = kp_cmac_subkeys key in line id op 0 k1 k2 []
          | "xcbc_keyexp" -> let ((e, k2), k3) = kp_xcbc_keyexp key in line id op 0 e k2 k3
          | "hmac" ->
              (match hash_of_id hash with
               | None -> line id op (-99) [] [] []
               | Some x ->
                   (match kp_hmac_ipad_opad x key with
                    | Some (i, o) -> line id op 0 i o []
                    | None -> line id op err_key_len [] [] []))
          | "one_block" ->
              (match hash_of_id hash with
               | None -> line id op (-99) [] [] []
               | Some x -> line id op 0 (kp_one_block x key) [] [])
          | "gcm_pre" | "gcm_precomp" ->
              List.iter (fun (nm, lay) -> let (e, t) = kp_gcm_pre lay key in line id op ~lay:nm 0 e t []) layouts
          | "ghash_pre" ->
              List.iter (fun (nm, lay) -> line id op ~lay:nm 0 [] (kp_ghash_table lay key) []) layouts
          | "des_keysched" -> line id op 0 (kp_des_keysched key) [] []
          | "sm4_keyexp" -> let (e, d) = kp_sm4_keyexp key in line id op 0 e d []
          | "kasumi_f8_sched" -> let s = kp_kasumi_f8_sched key in line id op (List.length s) s [] []
          | "kasumi_f9_sched" -> let s = kp_kasumi_f9_sched key in line id op (List.length s) s [] []
          | "snow3g_sched" -> let s = kp_snow3g_sched key in line id op (List.length s) s [] []
          | "iv_zuc_eea3" | "iv_zuc_eia3" | "iv_snow3g_f8" | "iv_kasumi_f8" ->
              let f = (match op with
                       | "iv_zuc_eea3" -> kp_zuc_eea3_iv_gen | "iv_zuc_eia3" -> kp_zuc_eia3_iv_gen
                       | "iv_snow3g_f8" -> kp_snow3g_f8_iv_gen | _ -> kp_kasumi_f8_iv_gen) in
              (match f (num "count") (num "bearer") (num "dir") with
               | Some iv -> line id op 0 iv [] []
               | None -> line id op (-1) [] [] [])
          | "iv_snow3g_f9" ->
              (match kp_snow3g_f9_iv_gen (num "count") (num "fresh") (num "dir") with
               | Some iv -> line id op 0 iv [] []
               | None -> line id op (-1) [] [] [])
          | "iv_kasumi_f9" -> line id op 0 (kp_kasumi_f9_iv_gen (num "count") (num "fresh")) [] []
          | _ -> line id op (-99) [] [] [])
       end
     done
   with End_of_file -> ());
  close_in ic
