(* stream_driver: run the extracted C10 streaming models (Struct/ChachaStream.v, Struct/GcmStream.v)
   on the case file read by harness/k10_stream.c and print the same lines (var=MODEL):
     C id= var= call= op= len= st= err= | <context dump>      after every modelled library call
     R id= var= out= tag=
   plus, for every case, the one-shot value of the Spec (chachapoly_enc / gcm_enc / gmac ...):
     S id= out= tag=
   usage: stream_driver casefile *)
open Stream_model

let rec pos_of_int (i : int) : positive =
  if i = 1 then XH else if i land 1 = 0 then XO (pos_of_int (i lsr 1)) else XI (pos_of_int (i lsr 1))
let n_of_int (i : int) : n = if i = 0 then N0 else Npos (pos_of_int i)
let rec nat_of_int (i : int) : nat = if i <= 0 then O else S (nat_of_int (i - 1))

(* N -> decimal string / hex digits without using bignums: N values here are < 2^136 *)
let rec bits_of_pos (p : positive) : bool list = (* lsb first *)
  match p with XH -> [true] | XO q -> false :: bits_of_pos q | XI q -> true :: bits_of_pos q
let bits_of_n = function N0 -> [] | Npos p -> bits_of_pos p

(* decimal of a number given as lsb-first bits; fits in OCaml int for all the counters printed
   that way (lengths, byte counts) *)
let int_of_n (x : n) : int =
  let rec go bs w acc = match bs with [] -> acc | b :: t -> go t (w * 2) (if b then acc + w else acc) in
  go (bits_of_n x) 1 0

let int_of_byte = int_of_n

let hex_of_bytes (l : bytes) : string =
  if l = [] then "-" else begin
    let b = Buffer.create 64 in
    List.iter (fun x -> Buffer.add_string b (Printf.sprintf "%02x" (int_of_byte x))) l;
    Buffer.contents b
  end

let bytes_of_hex (s : string) : bytes =
  if s = "-" || s = "" then [] else begin
    let n = String.length s / 2 in
    List.init n (fun i -> n_of_int (int_of_string ("0x" ^ String.sub s (2 * i) 2)))
  end

let kv tok key =
  let kl = String.length key in
  if String.length tok > kl && String.sub tok 0 (kl + 1) = key ^ "=" then
    Some (String.sub tok (kl + 1) (String.length tok - kl - 1))
  else None

let find_opt toks key =
  let rec go = function [] -> None | t :: r -> (match kv t key with Some v -> Some v | None -> go r) in
  go toks
let find toks key = match find_opt toks key with Some v -> v | None -> failwith ("missing " ^ key)
let find_def toks key d = match find_opt toks key with Some v -> v | None -> d

let rec take n l = if n = 0 then [] else match l with [] -> [] | x :: t -> x :: take (n - 1) t
let rec drop n l = if n = 0 then l else match l with [] -> [] | _ :: t -> drop (n - 1) t

let split_segs (msg : bytes) (lens : int list) : bytes list =
  let rec go m = function [] -> [] | l :: t -> take l m :: go (drop l m) t in
  go msg lens

(* ---------------- ChaCha20-Poly1305 ---------------- *)

let dump_chacha (c : cctx) (final : bool) : string =
  let rks = int_of_n c.c_rks and rct = int_of_n c.c_rct in
  let rks' = Stdlib.min rks 64 and rct' = Stdlib.min rct 16 in
  let clean = List.for_all (fun x -> x = N0) c.c_last_ks && List.for_all (fun x -> x = N0) c.c_poly_key in
  Printf.sprintf "hash=%s aad_len=%d hash_len=%d rks=%d rct=%d lbc=%d ks=%s scr=%s pkey=%s iv=%s%s"
    (hex_of_bytes (n_to_le (nat_of_int 17) c.c_hash))
    (int_of_n c.c_aad_len) (int_of_n c.c_hash_len) rks rct (int_of_n c.c_lbc)
    (hex_of_bytes (drop (64 - rks') c.c_last_ks))
    (hex_of_bytes (take rct' c.c_scratch))
    (hex_of_bytes c.c_poly_key) (hex_of_bytes c.c_iv)
    (if final then Printf.sprintf " clean=%d" (if clean then 1 else 0) else "")

let emit id call op len st dump =
  Printf.printf "C id=%s var=MODEL call=%d op=%s len=%d st=%s err=0 | %s\n" id !call op len st dump;
  incr call

let run_chacha id form dir key iv aad msg seglens taglen =
  let segs = split_segs msg seglens in
  let d = if dir = 1 then Enc else Dec in
  let call = ref 0 in
  let ctx0 = cctx_garbage in
  let result outs tag = Printf.printf "R id=%s var=MODEL out=%s tag=%s\n" id (hex_of_bytes (List.concat outs)) (hex_of_bytes tag) in
  match form with
  | "oneshot" ->
      let (o, t) = if dir = 1 then chachapoly_enc key iv aad msg else chachapoly_dec key iv aad msg in
      Printf.printf "C id=%s var=MODEL call=0 op=oneshot len=%d st=3 err=0 | -\n" id (List.length msg);
      Printf.printf "R id=%s var=MODEL out=%s tag=%s\n" id (hex_of_bytes o) (hex_of_bytes t)
  | "direct" ->
      let c = ref (init_direct_spec key ctx0 iv aad) in
      emit id call "init" 0 "-" (dump_chacha !c false);
      let outs = List.map (fun s ->
        let (c', o) = update_direct_spec key !c s d in
        c := c'; emit id call "update" (List.length s) "-" (dump_chacha !c false); o) segs in
      let (c', t) = finalize_direct_spec !c (nat_of_int taglen) in
      emit id call "final" 0 "-" (dump_chacha c' true);
      result outs t
  | "all" ->
      let ((c', outs), t) = aead_sgl_spec SGL_ALL key ctx0 iv aad [] segs d in
      emit id call "all" (List.length msg) "3" (dump_chacha c' true);
      result outs (match t with Some t -> t | None -> [])
  | "job" | "jobu" ->
      let upd_only = form = "jobu" || segs = [] in
      let nseg = List.length segs in
      let first = if upd_only then [] else List.hd segs in
      let mids = if upd_only then segs else if nseg >= 2 then take (nseg - 2) (List.tl segs) else [] in
      let last = if (not upd_only) && nseg >= 2 then List.nth segs (nseg - 1) else [] in
      let ((c1, o1), _) = aead_sgl_spec SGL_INIT key ctx0 iv aad first [] d in
      emit id call "job-init" (List.length first) "3" (dump_chacha c1 false);
      let c = ref c1 in
      let om = List.map (fun s ->
        let ((c', o), _) = aead_sgl_spec SGL_UPDATE key !c iv aad s [] d in
        c := c'; emit id call "job-update" (List.length s) "3" (dump_chacha !c false); List.concat o) mids in
      let ((c3, o3), t) = aead_sgl_spec SGL_COMPLETE key !c iv aad last [] d in
      emit id call "job-complete" (List.length last) "3" (dump_chacha c3 true);
      (* the harness prints only the bytes of the declared segments *)
      let outs = if upd_only then om else if nseg >= 2 then o1 @ om @ o3 else o1 in
      result outs (match t with Some t -> t | None -> [])
  | _ -> Printf.printf "E id=%s var=MODEL unusable case\n" id

(* ---------------- AES-GCM / GMAC ---------------- *)

let dump_gcm (c : gctx) (with_pbk : bool) : string =
  Printf.sprintf "aad_hash=%s aad_len=%d in_len=%d pbl=%d pbk=%s ctr=%s oiv=%s"
    (hex_of_bytes (gctx_mem_aad_hash c)) (int_of_n c.g_aad_len) (int_of_n c.g_in_len) (int_of_n c.g_pbl)
    (if with_pbk then hex_of_bytes (gctx_mem_pbk_live c) else "-")
    (hex_of_bytes (gctx_mem_counter c)) (hex_of_bytes c.g_oiv)

(* [lazy_at]: indices of the updates after which the implementation left the last whole block
   pending (observed in the library's own dump: partial_block_length = 16); the model takes this
   scheduling choice as its policy argument.  For form "all" the indices count non-empty segments. *)
let run_gcm id form dir key iv aad msg seglens taglen lazy_at =
  let segs = split_segs msg seglens in
  let d = if dir = 1 then GEnc else GDec in
  let e = aesE key in
  let cur = ref 0 in
  let policy_flag _ _ = List.mem !cur lazy_at in
  let policy_count _ _ = let r = List.mem !cur lazy_at in incr cur; r in
  let call = ref 0 in
  let tl = nat_of_int taglen in
  let result outs tag = Printf.printf "R id=%s var=MODEL out=%s tag=%s\n" id (hex_of_bytes (List.concat outs)) (hex_of_bytes tag) in
  match form with
  | "oneshot" ->
      let (o, t) = if dir = 1 then gcm_enc key iv aad msg tl else gcm_dec key iv aad msg tl in
      Printf.printf "C id=%s var=MODEL call=0 op=oneshot len=%d st=3 err=0 | -\n" id (List.length msg);
      Printf.printf "R id=%s var=MODEL out=%s tag=%s\n" id (hex_of_bytes o) (hex_of_bytes t)
  | "direct" | "directv" ->
      let twelve = form = "direct" && List.length iv = 12 in
      let c = ref (gcm_init e twelve iv aad) in
      emit id call (if twelve then "init" else "init-var") 0 "-" (dump_gcm !c true);
      let outs = List.mapi (fun i s ->
        cur := i;
        let (c', o) = gcm_update e policy_flag !c d s in
        c := c'; emit id call "update" (List.length s) "-" (dump_gcm !c true); o) segs in
      let (c', t) = gcm_finalize e !c tl in
      emit id call "final" 0 "-" (dump_gcm c' true);
      result outs t
  | "all" ->
      let ((c', outs), t) = gcm_sgl e policy_count GSGL_ALL gctx_garbage iv aad [] segs d tl in
      emit id call "all" (List.length msg) "3" (dump_gcm c' true);
      result outs (match t with Some t -> t | None -> [])
  | "job" ->
      let ((c1, _), _) = gcm_sgl e policy_flag GSGL_INIT gctx_garbage iv aad [] [] d tl in
      emit id call "job-init" 0 "3" (dump_gcm c1 true);
      let c = ref c1 in
      let outs = List.mapi (fun i s ->
        cur := i;
        let ((c', o), _) = gcm_sgl e policy_flag GSGL_UPDATE !c iv aad s [] d tl in
        c := c'; emit id call "job-update" (List.length s) "3" (dump_gcm !c true); List.concat o) segs in
      let ((c3, _), t) = gcm_sgl e policy_flag GSGL_COMPLETE !c iv aad [] [] d tl in
      emit id call "job-complete" 0 "3" (dump_gcm c3 true);
      result outs (match t with Some t -> t | None -> [])
  | _ -> Printf.printf "E id=%s var=MODEL unusable case\n" id

let run_gmac id form key iv msg seglens taglen =
  let segs = split_segs msg seglens in
  let e = aesE key in
  let call = ref 0 in
  let tl = nat_of_int taglen in
  match form with
  | "oneshot" ->
      let t = gmac key iv msg tl in
      Printf.printf "C id=%s var=MODEL call=0 op=oneshot len=%d st=3 err=0 | -\n" id (List.length msg);
      Printf.printf "R id=%s var=MODEL out=- tag=%s\n" id (hex_of_bytes t)
  | "direct" ->
      let c = ref (gmac_init e iv) in
      emit id call "gmac-init" 0 "-" (dump_gcm !c false);
      List.iter (fun s ->
        c := gmac_update e !c s; emit id call "gmac-update" (List.length s) "-" (dump_gcm !c false)) segs;
      let (c', t) = gmac_finalize e !c tl in
      emit id call "gmac-final" 0 "-" (dump_gcm c' false);
      Printf.printf "R id=%s var=MODEL out=- tag=%s\n" id (hex_of_bytes t)
  | _ -> Printf.printf "E id=%s var=MODEL unusable case\n" id

let spec_line id alg dir key iv aad msg taglen =
  let tl = nat_of_int taglen in
  match alg with
  | "chacha" ->
      let (o, t) = if dir = 1 then chachapoly_enc key iv aad msg else chachapoly_dec key iv aad msg in
      Printf.printf "S id=%s out=%s tag=%s\n" id (hex_of_bytes o) (hex_of_bytes (take taglen t))
  | "gcm" ->
      let (o, t) = if dir = 1 then gcm_enc key iv aad msg tl else gcm_dec key iv aad msg tl in
      Printf.printf "S id=%s out=%s tag=%s\n" id (hex_of_bytes o) (hex_of_bytes t)
  | "gmac" -> Printf.printf "S id=%s out=- tag=%s\n" id (hex_of_bytes (gmac key iv msg tl))
  | _ -> ()

let () =
  let ic = open_in Sys.argv.(1) in
  let want_spec = Array.length Sys.argv > 2 && Sys.argv.(2) = "--spec" in
  (try
    while true do
      let line = input_line ic in
      if String.length line > 0 && line.[0] <> '#' then begin
        let toks = List.filter (fun s -> s <> "") (String.split_on_char ' ' line) in
        let id = find toks "id" and alg = find toks "alg" and form = find toks "form" in
        let dir = int_of_string (find_def toks "dir" "1") in
        let taglen = int_of_string (find_def toks "taglen" "16") in
        let key = bytes_of_hex (find_def toks "key" "-") and iv = bytes_of_hex (find_def toks "iv" "-") in
        let aad = bytes_of_hex (find_def toks "aad" "-") and msg = bytes_of_hex (find_def toks "msg" "-") in
        let sg = find_def toks "segs" "-" in
        let seglens = if sg = "-" then [] else List.map int_of_string (String.split_on_char ',' sg) in
        (match alg with
         | "chacha" -> run_chacha id form dir key iv aad msg seglens taglen
         | "gcm" ->
             let lz = find_def toks "lazy" "-" in
             let lazy_at = if lz = "-" then [] else List.map int_of_string (String.split_on_char ',' lz) in
             run_gcm id form dir key iv aad msg seglens taglen lazy_at
         | "gmac" -> run_gmac id form key iv msg seglens taglen
         | _ -> Printf.printf "E id=%s var=MODEL unusable case\n" id);
        if want_spec then spec_line id alg dir key iv aad msg taglen
      end
    done
  with End_of_file -> ());
  close_in ic
