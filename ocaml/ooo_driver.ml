(* ooo_driver: replay a k2_ooo trace on the extracted scheduler model and compare the
   scheduling state of each AES-CBC manager after every API call. *)
open Ooo_model

let rec pos_of_int i = if i = 1 then XH else if i land 1 = 0 then XO (pos_of_int (i lsr 1)) else XI (pos_of_int (i lsr 1))
let z_of_int i = if i = 0 then Z0 else if i > 0 then Zpos (pos_of_int i) else Zneg (pos_of_int (-i))
let rec int_of_pos = function XH -> 1 | XO p -> 2 * int_of_pos p | XI p -> 2 * int_of_pos p + 1
let int_of_z = function Z0 -> 0 | Zpos p -> int_of_pos p | Zneg p -> - (int_of_pos p)
let rec nat_of_int i = if i = 0 then O else S (nat_of_int (i - 1))
let rec int_of_nat = function O -> 0 | S n -> 1 + int_of_nat n

type m = { mutable o : (sjob, z) ooo option; mutable l : int }
let mgrs = [ ("k16", { o = None; l = 0 }); ("k24", { o = None; l = 0 }); ("k32", { o = None; l = 0 }) ]
let kname kb = match kb with 16 -> "k16" | 24 -> "k24" | 32 -> "k32" | _ -> failwith "key"

let () =
  let ic = open_in Sys.argv.(1) in
  let lineno = ref 0 and bad = ref 0 and nops = ref 0 and maxbusy = ref 0 in
  (try
     while true do
       let line = input_line ic in
       incr lineno;
       let toks = String.split_on_char ' ' line in
       let fields = List.filter (fun t -> String.length t > 3 && (String.sub t 0 1 = "k") && String.contains t ':') toks in
       let parse_mgr t =
         match String.split_on_char ':' t with
         | [name; l; u; _inuse; lens; jobs] ->
             let geti s = int_of_string (String.sub s (String.index s '=' + 1) (String.length s - String.index s '=' - 1)) in
             let l = geti l in
             let u = Scanf.sscanf (String.sub u 2 (String.length u - 2)) "%Lx" (fun x -> x) in
             let lens = List.map int_of_string (String.split_on_char ',' (String.sub lens 5 (String.length lens - 5))) in
             let jobs = List.map int_of_string (String.split_on_char ',' (String.sub jobs 5 (String.length jobs - 5))) in
             (name, l, u, lens, jobs)
         | _ -> failwith ("bad mgr field " ^ t) in
       let real = List.map parse_mgr fields in
       (* apply the operation to the model *)
       (match toks with
        | "I" :: _ ->
            List.iter (fun (name, l, _, _, _) -> let m = List.assoc name mgrs in m.l <- l; m.o <- Some (s_reset (nat_of_int l))) real
        | "S" :: kb :: nb :: id :: _ ->
            let m = List.assoc (kname (int_of_string kb)) mgrs in
            (match m.o with
             | Some o -> let (o', _) = s_submit (nat_of_int m.l) o (z_of_int (int_of_string id), z_of_int (int_of_string nb)) in m.o <- Some o'
             | None -> ());
            incr nops
        | "F" :: kb :: _ ->
            let kb = int_of_string kb in
            if kb <> 0 then begin
              let m = List.assoc (kname kb) mgrs in
              (* complete_job flushes the manager until the earliest job is done: as many flushes as jobs
                 of that manager completed during the call *)
              let dn = List.find (fun t -> String.length t > 5 && String.sub t 0 5 = "done=") toks in
              let dn = String.sub dn 5 (String.length dn - 5) in
              let k = if dn = "-" then 0 else
                  List.length (List.filter (fun s -> match String.split_on_char '/' s with [_; kk] -> int_of_string kk = kb | _ -> false)
                                 (String.split_on_char ',' dn)) in
              for _ = 1 to k do
                match m.o with
                | Some o -> let (o', _) = s_flush (nat_of_int m.l) o in m.o <- Some o'
                | None -> ()
              done
            end;
            incr nops
        | _ -> ());
       (* compare *)
       List.iter (fun (name, l, u, lens, jobs) ->
         let m = List.assoc name mgrs in
         match m.o with
         | None -> ()
         | Some o ->
             let un = List.map int_of_nat (s_unused o) in
             (* decode the nibble stack: first |un| nibbles *)
             let real_un = List.mapi (fun i _ -> Int64.to_int (Int64.logand (Int64.shift_right_logical u (4 * i)) 15L)) un in
             let busy = l - List.length un in
             if busy > !maxbusy then maxbusy := busy;
             let diffs = ref [] in
             if un <> real_un then
               diffs := Printf.sprintf "unused model=[%s] lib=[%s]" (String.concat "," (List.map string_of_int un))
                          (String.concat "," (List.map string_of_int real_un)) :: !diffs;
             List.iteri (fun lane jid ->
               let mj = match s_job o (nat_of_int lane) with Some (id, _) -> int_of_z id | None -> 0 in
               if mj <> jid then diffs := Printf.sprintf "lane %d job model=%d lib=%d" lane mj jid :: !diffs
               else if mj <> 0 then begin
                 let ml = 16 * int_of_z (s_lens o (nat_of_int lane)) in
                 let rl = List.nth lens lane in
                 if ml <> rl then diffs := Printf.sprintf "lane %d len model=%d lib=%d" lane ml rl :: !diffs
               end) jobs;
             if !diffs <> [] then begin
               incr bad;
               Printf.printf "MISMATCH line %d %s: %s || %s\n" !lineno name (String.concat "; " !diffs) line
             end) real
     done
   with End_of_file -> ());
  Printf.printf "SUMMARY ops=%d mismatches=%d maxbusy=%d\n" !nops !bad !maxbusy
