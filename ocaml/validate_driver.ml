(* ocaml/validate_driver.ml -- runs the extracted parameter-check model on a case file.

   Input: one job_view per line, whitespace-separated unsigned decimal fields (each < 2^64), in the
   order of the record coq/Mgr/JobView.v:
     0 enc_keys 1 dec_keys 2 key_len_in_bytes 3 src 4 dst 5 cipher_start_src_offset
     6 msg_len_to_cipher 7 hash_start_src_offset 8 msg_len_to_hash 9 iv 10 iv_len_in_bytes
     11 auth_tag_output 12 auth_tag_output_len 13 u0 14 u1 15 u2 16 cipher_mode 17 cipher_direction
     18 hash_alg 19 chain_order 20 cipher_func 21 hash_func 22 sgl_state 23 next_iv
     24..26 enc_ks0..2 27..29 dec_ks0..2 30 mem_xgem_hdr 31 nsegs, then nsegs x (in out len)
   Lines starting with '#' are ignored.
   Output: one line per job:
     <code-verdict> | <catalogue-verdict>
     <code-verdict> | <catalogue-verdict> | <wf> | <discrepancies>
   code-verdict      = `accept` or `reject <errno>`          (GenValidate.is_job_invalid)
   catalogue-verdict = `ok` or `bad <errno>,<errno>,...`     (Validate.job_ok / Validate.violations)
   wf                = `wf` or `nwf`                         (JobView.well_formed)
   discrepancies     = `-` or `D1,D3,...`                    (Validate.discrepancy_flags)
   With the argument `light`, is_job_invalid_light is run instead of is_job_invalid.
   With the argument `suite`, only `<id0> <id1>` is printed: the suite id that imb_set_session() /
   submit_burst_and_check() compute for the job (set_cipher_suite_id, calc_cipher_tab_index). *)

module M = Validate_model
(* not opened: the extracted model defines its own [string] (Coq strings of rule names) *)

let n_of_u64 (x : int64) : M.n =
  if Int64.equal x 0L then M.N0
  else begin
    (* build the positive from the most significant bit down *)
    let top = ref 63 in
    while Int64.equal (Int64.logand (Int64.shift_right_logical x !top) 1L) 0L do decr top done;
    let p = ref M.XH in
    for b = !top - 1 downto 0 do
      if Int64.equal (Int64.logand (Int64.shift_right_logical x b) 1L) 1L then p := M.XI !p else p := M.XO !p
    done;
    M.Npos !p
  end

let rec int_of_pos = function M.XH -> 1 | M.XO p -> 2 * int_of_pos p | M.XI p -> 2 * int_of_pos p + 1
let int_of_n = function M.N0 -> 0 | M.Npos p -> int_of_pos p

let parse_u64 (s : string) : M.n =
  (* "0u" prefix: unsigned decimal literal that may exceed Int64.max_int *)
  n_of_u64 (Int64.of_string ("0u" ^ s))

let split_ws (s : string) : string list =
  List.filter (fun x -> x <> "") (String.split_on_char ' ' (String.map (fun c -> if c = '\t' then ' ' else c) s))

let view_of_line (line : string) : M.job_view =
  let a = Array.of_list (List.map parse_u64 (split_ws line)) in
  if Array.length a < 32 then failwith "too few fields";
  let ns = int_of_n a.(31) in
  if Array.length a <> 32 + 3 * ns then failwith "segment count does not match the number of fields";
  let segs = List.init ns (fun i -> { M.seg_in = a.(32 + 3 * i); seg_out = a.(33 + 3 * i); seg_len = a.(34 + 3 * i) }) in
  { M.jv_enc_keys = a.(0); jv_dec_keys = a.(1); jv_key_len_in_bytes = a.(2); jv_src = a.(3); jv_dst = a.(4);
    jv_cipher_start_src_offset = a.(5); jv_msg_len_to_cipher = a.(6); jv_hash_start_src_offset = a.(7);
    jv_msg_len_to_hash = a.(8); jv_iv = a.(9); jv_iv_len_in_bytes = a.(10); jv_auth_tag_output = a.(11);
    jv_auth_tag_output_len = a.(12); jv_u0 = a.(13); jv_u1 = a.(14); jv_u2 = a.(15); jv_cipher_mode = a.(16);
    jv_cipher_direction = a.(17); jv_hash_alg = a.(18); jv_chain_order = a.(19); jv_cipher_func = a.(20);
    jv_hash_func = a.(21); jv_sgl_state = a.(22); jv_next_iv = a.(23);
    jv_enc_ks0 = a.(24); jv_enc_ks1 = a.(25); jv_enc_ks2 = a.(26);
    jv_dec_ks0 = a.(27); jv_dec_ks1 = a.(28); jv_dec_ks2 = a.(29);
    jv_mem_xgem_hdr = a.(30); jv_sgl_segs = segs }

let () =
  let light = Array.length Sys.argv > 1 && Sys.argv.(1) = "light" in
  let suite = Array.length Sys.argv > 1 && Sys.argv.(1) = "suite" in
  let buf = Buffer.create (1 lsl 16) in
  (try
     while true do
       let line = input_line stdin in
       if String.length line > 0 && line.[0] <> '#' then begin
         let j = view_of_line line in
         if suite then begin
           Buffer.add_string buf (string_of_int (int_of_n (M.set_cipher_suite_id_0 j)));
           Buffer.add_char buf ' ';
           Buffer.add_string buf (string_of_int (int_of_n (M.set_cipher_suite_id_1 j)));
           Buffer.add_char buf '\n'
         end else begin
         (match (if light then M.is_job_invalid_light j else M.is_job_invalid j) with
          | None -> Buffer.add_string buf "accept"
          | Some e -> Buffer.add_string buf "reject "; Buffer.add_string buf (string_of_int (int_of_n e)));
         Buffer.add_string buf " | ";
         (if M.job_ok j then Buffer.add_string buf "ok"
          else begin
            Buffer.add_string buf "bad ";
            Buffer.add_string buf (String.concat "," (List.map (fun e -> string_of_int (int_of_n e)) (M.violations j)))
          end);
         Buffer.add_string buf (if M.well_formed j then " | wf | " else " | nwf | ");
         (match M.discrepancy_flags j with
          | [] -> Buffer.add_char buf '-'
          | l -> Buffer.add_string buf (String.concat "," (List.map (fun e -> "D" ^ string_of_int (int_of_n e)) l)));
         Buffer.add_char buf '\n'
         end;
         if Buffer.length buf > 60000 then begin print_string (Buffer.contents buf); Buffer.clear buf end
       end
     done
   with End_of_file -> ());
  print_string (Buffer.contents buf)
