
val implb : bool -> bool -> bool

val negb : bool -> bool

type nat =
| O
| S of nat

val fst : ('a1 * 'a2) -> 'a1

val snd : ('a1 * 'a2) -> 'a2

val length : 'a1 list -> nat

val app : 'a1 list -> 'a1 list -> 'a1 list

type comparison =
| Eq
| Lt
| Gt

val add : nat -> nat -> nat

type positive =
| XI of positive
| XO of positive
| XH

type n =
| N0
| Npos of positive

module Pos :
 sig
  type mask =
  | IsNul
  | IsPos of positive
  | IsNeg
 end

module Coq_Pos :
 sig
  val succ : positive -> positive

  val add : positive -> positive -> positive

  val add_carry : positive -> positive -> positive

  val pred_double : positive -> positive

  type mask = Pos.mask =
  | IsNul
  | IsPos of positive
  | IsNeg

  val succ_double_mask : mask -> mask

  val double_mask : mask -> mask

  val double_pred_mask : positive -> mask

  val sub_mask : positive -> positive -> mask

  val sub_mask_carry : positive -> positive -> mask

  val mul : positive -> positive -> positive

  val iter : ('a1 -> 'a1) -> 'a1 -> positive -> 'a1

  val compare_cont : comparison -> positive -> positive -> comparison

  val compare : positive -> positive -> comparison

  val eqb : positive -> positive -> bool

  val coq_Nsucc_double : n -> n

  val coq_Ndouble : n -> n

  val coq_lor : positive -> positive -> positive

  val coq_land : positive -> positive -> n

  val shiftl : positive -> n -> positive

  val iter_op : ('a1 -> 'a1 -> 'a1) -> positive -> 'a1 -> 'a1

  val to_nat : positive -> nat

  val of_succ_nat : nat -> positive
 end

module N :
 sig
  val succ_double : n -> n

  val double : n -> n

  val add : n -> n -> n

  val sub : n -> n -> n

  val mul : n -> n -> n

  val compare : n -> n -> comparison

  val eqb : n -> n -> bool

  val leb : n -> n -> bool

  val ltb : n -> n -> bool

  val div2 : n -> n

  val pos_div_eucl : positive -> n -> n * n

  val div_eucl : n -> n -> n * n

  val modulo : n -> n -> n

  val coq_lor : n -> n -> n

  val coq_land : n -> n -> n

  val shiftl : n -> n -> n

  val shiftr : n -> n -> n

  val to_nat : n -> nat

  val of_nat : nat -> n
 end

val map : ('a1 -> 'a2) -> 'a1 list -> 'a2 list

val flat_map : ('a1 -> 'a2 list) -> 'a1 list -> 'a2 list

val fold_right : ('a2 -> 'a1 -> 'a1) -> 'a1 -> 'a2 list -> 'a1

val existsb : ('a1 -> bool) -> 'a1 list -> bool

val forallb : ('a1 -> bool) -> 'a1 list -> bool

type ascii =
| Ascii of bool * bool * bool * bool * bool * bool * bool * bool

type string =
| EmptyString
| String of ascii * string

val mask16 : n

val mask32 : n

val mask64 : n

val w16 : n -> n

val w32 : n -> n

val w64 : n -> n

val add64 : n -> n -> n

val iMB_CIPHER_CBC : n

val iMB_CIPHER_CNTR : n

val iMB_CIPHER_NULL : n

val iMB_CIPHER_DOCSIS_SEC_BPI : n

val iMB_CIPHER_GCM : n

val iMB_CIPHER_CUSTOM : n

val iMB_CIPHER_DES : n

val iMB_CIPHER_DOCSIS_DES : n

val iMB_CIPHER_CCM : n

val iMB_CIPHER_DES3 : n

val iMB_CIPHER_PON_AES_CNTR : n

val iMB_CIPHER_ECB : n

val iMB_CIPHER_CNTR_BITLEN : n

val iMB_CIPHER_ZUC_EEA3 : n

val iMB_CIPHER_SNOW3G_UEA2_BITLEN : n

val iMB_CIPHER_KASUMI_UEA1_BITLEN : n

val iMB_CIPHER_CBCS_1_9 : n

val iMB_CIPHER_CHACHA20 : n

val iMB_CIPHER_CHACHA20_POLY1305 : n

val iMB_CIPHER_CHACHA20_POLY1305_SGL : n

val iMB_CIPHER_SNOW_V : n

val iMB_CIPHER_SNOW_V_AEAD : n

val iMB_CIPHER_GCM_SGL : n

val iMB_CIPHER_SM4_ECB : n

val iMB_CIPHER_SM4_CBC : n

val iMB_CIPHER_CFB : n

val iMB_CIPHER_SM4_CNTR : n

val iMB_CIPHER_SM4_GCM : n

val iMB_AUTH_HMAC_SHA_1 : n

val iMB_AUTH_HMAC_SHA_224 : n

val iMB_AUTH_HMAC_SHA_256 : n

val iMB_AUTH_HMAC_SHA_384 : n

val iMB_AUTH_HMAC_SHA_512 : n

val iMB_AUTH_AES_XCBC : n

val iMB_AUTH_MD5 : n

val iMB_AUTH_NULL : n

val iMB_AUTH_AES_GMAC : n

val iMB_AUTH_CUSTOM : n

val iMB_AUTH_AES_CCM : n

val iMB_AUTH_AES_CMAC : n

val iMB_AUTH_SHA_1 : n

val iMB_AUTH_SHA_224 : n

val iMB_AUTH_SHA_256 : n

val iMB_AUTH_SHA_384 : n

val iMB_AUTH_SHA_512 : n

val iMB_AUTH_AES_CMAC_BITLEN : n

val iMB_AUTH_PON_CRC_BIP : n

val iMB_AUTH_ZUC_EIA3_BITLEN : n

val iMB_AUTH_DOCSIS_CRC32 : n

val iMB_AUTH_SNOW3G_UIA2_BITLEN : n

val iMB_AUTH_KASUMI_UIA1 : n

val iMB_AUTH_AES_GMAC_128 : n

val iMB_AUTH_AES_GMAC_192 : n

val iMB_AUTH_AES_GMAC_256 : n

val iMB_AUTH_AES_CMAC_256 : n

val iMB_AUTH_POLY1305 : n

val iMB_AUTH_CHACHA20_POLY1305 : n

val iMB_AUTH_CHACHA20_POLY1305_SGL : n

val iMB_AUTH_ZUC256_EIA3_BITLEN : n

val iMB_AUTH_SNOW_V_AEAD : n

val iMB_AUTH_GCM_SGL : n

val iMB_AUTH_CRC32_ETHERNET_FCS : n

val iMB_AUTH_CRC32_SCTP : n

val iMB_AUTH_CRC32_WIMAX_OFDMA_DATA : n

val iMB_AUTH_CRC24_LTE_A : n

val iMB_AUTH_CRC24_LTE_B : n

val iMB_AUTH_CRC16_X25 : n

val iMB_AUTH_CRC16_FP_DATA : n

val iMB_AUTH_CRC11_FP_HEADER : n

val iMB_AUTH_CRC10_IUUP_DATA : n

val iMB_AUTH_CRC8_WIMAX_OFDMA_HCS : n

val iMB_AUTH_CRC7_FP_HEADER : n

val iMB_AUTH_CRC6_IUUP_HEADER : n

val iMB_AUTH_GHASH : n

val iMB_AUTH_SM3 : n

val iMB_AUTH_HMAC_SM3 : n

val iMB_AUTH_SM4_GCM : n

val iMB_ERR_JOB_NULL_SRC : n

val iMB_ERR_JOB_NULL_DST : n

val iMB_ERR_JOB_NULL_KEY : n

val iMB_ERR_JOB_NULL_IV : n

val iMB_ERR_JOB_NULL_AUTH : n

val iMB_ERR_JOB_NULL_AAD : n

val iMB_ERR_JOB_CIPH_LEN : n

val iMB_ERR_JOB_AUTH_LEN : n

val iMB_ERR_JOB_IV_LEN : n

val iMB_ERR_JOB_KEY_LEN : n

val iMB_ERR_JOB_AUTH_TAG_LEN : n

val iMB_ERR_JOB_AAD_LEN : n

val iMB_ERR_JOB_SRC_OFFSET : n

val iMB_ERR_JOB_CHAIN_ORDER : n

val iMB_ERR_CIPH_MODE : n

val iMB_ERR_HASH_ALGO : n

val iMB_ERR_JOB_NULL_AUTH_KEY : n

val iMB_ERR_JOB_NULL_SGL_CTX : n

val iMB_ERR_JOB_NULL_NEXT_IV : n

val iMB_ERR_JOB_PON_PLI : n

val iMB_ERR_JOB_NULL_HMAC_OPAD : n

val iMB_ERR_JOB_NULL_HMAC_IPAD : n

val iMB_ERR_JOB_NULL_XCBC_K1_EXP : n

val iMB_ERR_JOB_NULL_XCBC_K2 : n

val iMB_ERR_JOB_NULL_XCBC_K3 : n

val iMB_ERR_JOB_CIPH_DIR : n

val iMB_ERR_JOB_NULL_GHASH_INIT_TAG : n

val iMB_ERR_JOB_SGL_STATE : n

val iMB_DIR_ENCRYPT : n

val iMB_DIR_DECRYPT : n

val iMB_ORDER_CIPHER_HASH : n

val iMB_ORDER_HASH_CIPHER : n

val iMB_SGL_INIT : n

val iMB_SGL_UPDATE : n

val iMB_SGL_COMPLETE : n

val iMB_SGL_ALL : n

val iMB_GCM_MAX_LEN : n

val iMB_CHACHA20_POLY1305_MAX_LEN : n

val iMB_CCM_AAD_MAX_SIZE : n

val iMB_SM3_DIGEST_SIZE : n

val errno_EFAULT : n

val errno_EINVAL : n

type sgl_seg = { seg_in : n; seg_out : n; seg_len : n }

type job_view = { jv_enc_keys : n; jv_dec_keys : n; jv_key_len_in_bytes : 
                  n; jv_src : n; jv_dst : n; jv_cipher_start_src_offset : 
                  n; jv_msg_len_to_cipher : n; jv_hash_start_src_offset : 
                  n; jv_msg_len_to_hash : n; jv_iv : n;
                  jv_iv_len_in_bytes : n; jv_auth_tag_output : n;
                  jv_auth_tag_output_len : n; jv_u0 : n; jv_u1 : n;
                  jv_u2 : n; jv_cipher_mode : n; jv_cipher_direction : 
                  n; jv_hash_alg : n; jv_chain_order : n; jv_cipher_func : 
                  n; jv_hash_func : n; jv_sgl_state : n; jv_next_iv : 
                  n; jv_enc_ks0 : n; jv_enc_ks1 : n; jv_enc_ks2 : n;
                  jv_dec_ks0 : n; jv_dec_ks1 : n; jv_dec_ks2 : n;
                  jv_mem_xgem_hdr : n; jv_sgl_segs : sgl_seg list }

val jv_sgl_io_segs : job_view -> n

val jv_num_sgl_io_segs : job_view -> n

val sub64 : n -> n -> n

val mul64 : n -> n -> n

val sub32 : n -> n -> n

val bswap64 : n -> n

val nth_N_aux : n list -> nat -> n

val nth_N : n list -> n -> n

val oseq : n option -> n option -> n option

val eRR_MODEL_VIEW_EXHAUSTED : n

val u64_ok : n -> bool

val u32_ok : n -> bool

val seg_ok : sgl_seg -> bool

val widths_ok : job_view -> bool

val sgl_view_ok : job_view -> bool

val uses_sgl_array : job_view -> bool

val well_formed : job_view -> bool

val is_job_invalid_light_sw1_IMB_CIPHER_NULL :
  job_view -> n -> n -> n -> n -> n option

val is_job_invalid_light_sw1_IMB_CIPHER_CBCS_1_9 :
  job_view -> n -> n -> n -> n -> n option

val is_job_invalid_light_sw1_IMB_CIPHER_CBC :
  job_view -> n -> n -> n -> n -> n option

val is_job_invalid_light_sw1_IMB_CIPHER_DOCSIS_SEC_BPI :
  job_view -> n -> n -> n -> n -> n option

val is_job_invalid_light_sw1_IMB_CIPHER_GCM :
  job_view -> n -> n -> n -> n -> n option

val is_job_invalid_light_sw1_IMB_CIPHER_SM4_GCM :
  job_view -> n -> n -> n -> n -> n option

val is_job_invalid_light_sw1_IMB_CIPHER_DES :
  job_view -> n -> n -> n -> n -> n option

val is_job_invalid_light_sw1_IMB_CIPHER_CCM :
  job_view -> n -> n -> n -> n -> n option

val is_job_invalid_light_sw1_IMB_CIPHER_DES3 :
  job_view -> n -> n -> n -> n -> n option

val is_job_invalid_light_sw1_IMB_CIPHER_PON_AES_CNTR :
  job_view -> n -> n -> n -> n -> n option

val is_job_invalid_light_sw1_IMB_CIPHER_ZUC_EEA3 :
  job_view -> n -> n -> n -> n -> n option

val is_job_invalid_light_sw1_IMB_CIPHER_SNOW3G_UEA2_BITLEN :
  job_view -> n -> n -> n -> n -> n option

val is_job_invalid_light_sw1_IMB_CIPHER_CHACHA20 :
  job_view -> n -> n -> n -> n -> n option

val is_job_invalid_light_sw1_IMB_CIPHER_CHACHA20_POLY1305 :
  job_view -> n -> n -> n -> n -> n option

val is_job_invalid_light_sw1_IMB_CIPHER_SNOW_V_AEAD :
  job_view -> n -> n -> n -> n -> n option

val is_job_invalid_light_sw1_IMB_CIPHER_CFB :
  job_view -> n -> n -> n -> n -> n option

val is_job_invalid_light_sw1_default :
  job_view -> n -> n -> n -> n -> n option

val is_job_invalid_light_sw1 : job_view -> n -> n -> n -> n -> n option

val is_job_invalid_light_sw2_IMB_AUTH_HMAC_SHA_1 :
  job_view -> n -> n -> n -> n -> n option

val is_job_invalid_light_sw2_IMB_AUTH_AES_GMAC :
  job_view -> n -> n -> n -> n -> n option

val is_job_invalid_light_sw2_IMB_AUTH_GCM_SGL :
  job_view -> n -> n -> n -> n -> n option

val is_job_invalid_light_sw2_IMB_AUTH_SM4_GCM :
  job_view -> n -> n -> n -> n -> n option

val is_job_invalid_light_sw2_IMB_AUTH_AES_CCM :
  job_view -> n -> n -> n -> n -> n option

val is_job_invalid_light_sw2_IMB_AUTH_PON_CRC_BIP :
  job_view -> n -> n -> n -> n -> n option

val is_job_invalid_light_sw2_IMB_AUTH_DOCSIS_CRC32 :
  job_view -> n -> n -> n -> n -> n option

val is_job_invalid_light_sw2_IMB_AUTH_CHACHA20_POLY1305 :
  job_view -> n -> n -> n -> n -> n option

val is_job_invalid_light_sw2_IMB_AUTH_CHACHA20_POLY1305_SGL :
  job_view -> n -> n -> n -> n -> n option

val is_job_invalid_light_sw2_IMB_AUTH_SNOW_V_AEAD :
  job_view -> n -> n -> n -> n -> n option

val is_job_invalid_light_sw2_default :
  job_view -> n -> n -> n -> n -> n option

val is_job_invalid_light_sw2 : job_view -> n -> n -> n -> n -> n option

val is_job_invalid_light_fn : job_view -> n -> n -> n -> n -> n option

val is_job_invalid_tab_auth_tag_len_fips : n list

val is_job_invalid_tab_auth_tag_len_ipsec : n list

val is_job_invalid_for1 :
  job_view -> n -> n -> n -> n -> sgl_seg list -> n -> n -> n option * n

val is_job_invalid_for2 :
  job_view -> n -> n -> n -> n -> sgl_seg list -> n -> n -> n option * n

val is_job_invalid_sw1_IMB_CIPHER_CBC :
  job_view -> n -> n -> n -> n -> n option

val is_job_invalid_sw1_IMB_CIPHER_ECB :
  job_view -> n -> n -> n -> n -> n option

val is_job_invalid_sw1_IMB_CIPHER_CNTR :
  job_view -> n -> n -> n -> n -> n option

val is_job_invalid_sw1_IMB_CIPHER_NULL :
  job_view -> n -> n -> n -> n -> n option

val is_job_invalid_sw1_IMB_CIPHER_DOCSIS_SEC_BPI :
  job_view -> n -> n -> n -> n -> n option

val is_job_invalid_sw1_IMB_CIPHER_GCM :
  job_view -> n -> n -> n -> n -> n option

val is_job_invalid_sw1_IMB_CIPHER_GCM_SGL :
  job_view -> n -> n -> n -> n -> n option

val is_job_invalid_sw1_IMB_CIPHER_SM4_GCM :
  job_view -> n -> n -> n -> n -> n option

val is_job_invalid_sw1_IMB_CIPHER_CUSTOM :
  job_view -> n -> n -> n -> n -> n option

val is_job_invalid_sw1_IMB_CIPHER_DES :
  job_view -> n -> n -> n -> n -> n option

val is_job_invalid_sw1_IMB_CIPHER_DOCSIS_DES :
  job_view -> n -> n -> n -> n -> n option

val is_job_invalid_sw1_IMB_CIPHER_CCM :
  job_view -> n -> n -> n -> n -> n option

val is_job_invalid_sw1_IMB_CIPHER_DES3 :
  job_view -> n -> n -> n -> n -> n option

val is_job_invalid_sw1_IMB_CIPHER_PON_AES_CNTR :
  job_view -> n -> n -> n -> n -> n option

val is_job_invalid_sw1_IMB_CIPHER_ZUC_EEA3 :
  job_view -> n -> n -> n -> n -> n option

val is_job_invalid_sw1_IMB_CIPHER_SNOW3G_UEA2_BITLEN :
  job_view -> n -> n -> n -> n -> n option

val is_job_invalid_sw1_IMB_CIPHER_KASUMI_UEA1_BITLEN :
  job_view -> n -> n -> n -> n -> n option

val is_job_invalid_sw1_IMB_CIPHER_CHACHA20 :
  job_view -> n -> n -> n -> n -> n option

val is_job_invalid_sw1_IMB_CIPHER_CHACHA20_POLY1305 :
  job_view -> n -> n -> n -> n -> n option

val is_job_invalid_sw1_IMB_CIPHER_CHACHA20_POLY1305_SGL :
  job_view -> n -> n -> n -> n -> n option

val is_job_invalid_sw1_IMB_CIPHER_SNOW_V_AEAD :
  job_view -> n -> n -> n -> n -> n option

val is_job_invalid_sw1_IMB_CIPHER_SM4_CNTR :
  job_view -> n -> n -> n -> n -> n option

val is_job_invalid_sw1_IMB_CIPHER_SM4_ECB :
  job_view -> n -> n -> n -> n -> n option

val is_job_invalid_sw1_IMB_CIPHER_SM4_CBC :
  job_view -> n -> n -> n -> n -> n option

val is_job_invalid_sw1_IMB_CIPHER_CFB :
  job_view -> n -> n -> n -> n -> n option

val is_job_invalid_sw1_default : job_view -> n -> n -> n -> n -> n option

val is_job_invalid_sw1 : job_view -> n -> n -> n -> n -> n option

val is_job_invalid_sw2_IMB_AUTH_HMAC_SHA_1 :
  job_view -> n -> n -> n -> n -> n option

val is_job_invalid_sw2_IMB_AUTH_AES_XCBC :
  job_view -> n -> n -> n -> n -> n option

val is_job_invalid_sw2_IMB_AUTH_NULL :
  job_view -> n -> n -> n -> n -> n option

val is_job_invalid_sw2_IMB_AUTH_CRC32_ETHERNET_FCS :
  job_view -> n -> n -> n -> n -> n option

val is_job_invalid_sw2_IMB_AUTH_AES_GMAC :
  job_view -> n -> n -> n -> n -> n option

val is_job_invalid_sw2_IMB_AUTH_GCM_SGL :
  job_view -> n -> n -> n -> n -> n option

val is_job_invalid_sw2_IMB_AUTH_AES_GMAC_128 :
  job_view -> n -> n -> n -> n -> n option

val is_job_invalid_sw2_IMB_AUTH_GHASH :
  job_view -> n -> n -> n -> n -> n option

val is_job_invalid_sw2_IMB_AUTH_CUSTOM :
  job_view -> n -> n -> n -> n -> n option

val is_job_invalid_sw2_IMB_AUTH_AES_CCM :
  job_view -> n -> n -> n -> n -> n option

val is_job_invalid_sw2_IMB_AUTH_AES_CMAC :
  job_view -> n -> n -> n -> n -> n option

val is_job_invalid_sw2_IMB_AUTH_SHA_1 :
  job_view -> n -> n -> n -> n -> n option

val is_job_invalid_sw2_IMB_AUTH_PON_CRC_BIP :
  job_view -> n -> n -> n -> n -> n option

val is_job_invalid_sw2_IMB_AUTH_ZUC_EIA3_BITLEN :
  job_view -> n -> n -> n -> n -> n option

val is_job_invalid_sw2_IMB_AUTH_ZUC256_EIA3_BITLEN :
  job_view -> n -> n -> n -> n -> n option

val is_job_invalid_sw2_IMB_AUTH_DOCSIS_CRC32 :
  job_view -> n -> n -> n -> n -> n option

val is_job_invalid_sw2_IMB_AUTH_SNOW3G_UIA2_BITLEN :
  job_view -> n -> n -> n -> n -> n option

val is_job_invalid_sw2_IMB_AUTH_KASUMI_UIA1 :
  job_view -> n -> n -> n -> n -> n option

val is_job_invalid_sw2_IMB_AUTH_POLY1305 :
  job_view -> n -> n -> n -> n -> n option

val is_job_invalid_sw2_IMB_AUTH_CHACHA20_POLY1305 :
  job_view -> n -> n -> n -> n -> n option

val is_job_invalid_sw2_IMB_AUTH_CHACHA20_POLY1305_SGL :
  job_view -> n -> n -> n -> n -> n option

val is_job_invalid_sw2_IMB_AUTH_SNOW_V_AEAD :
  job_view -> n -> n -> n -> n -> n option

val is_job_invalid_sw2_IMB_AUTH_SM3 : job_view -> n -> n -> n -> n -> n option

val is_job_invalid_sw2_IMB_AUTH_HMAC_SM3 :
  job_view -> n -> n -> n -> n -> n option

val is_job_invalid_sw2_IMB_AUTH_SM4_GCM :
  job_view -> n -> n -> n -> n -> n option

val is_job_invalid_sw2_default : job_view -> n -> n -> n -> n -> n option

val is_job_invalid_sw2 : job_view -> n -> n -> n -> n -> n option

val is_job_invalid_fn : job_view -> n -> n -> n -> n -> n option

val is_job_invalid : job_view -> n option

val is_job_invalid_light : job_view -> n option

type cond =
| NonNull of (job_view -> n)
| ValIn of (job_view -> n) * n list
| ValBetween of (job_view -> n) * n * n
| ValAtLeast of (job_view -> n) * n
| MultipleOf of (job_view -> n) * n
| SameAs of (job_view -> n) * (job_view -> n)
| Neg of cond
| Both of cond * cond
| Either of cond * cond
| When of cond * cond
| PonInPlace
| PonPliFits
| DocsisLenFits
| DocsisOffsetFits
| SglArrayNonNull
| SglSegInNonNull
| SglSegOutNonNull
| SglTotalAtMost of n

val pon_pli : job_view -> n

val pon_payload_len : job_view -> n

val seg_in_ok : sgl_seg -> bool

val seg_out_ok : sgl_seg -> bool

val sgl_total : sgl_seg list -> n

val holds : cond -> job_view -> bool

type rule = { r_name : string; r_cond : cond; r_err : n }

val rules_ok : rule list -> job_view -> bool

val violations_of : rule list -> job_view -> n list

val keyLenIn : n list -> cond

val ivLenIn : n list -> cond

val ivLenBetween : n -> n -> cond

val tagLenIn : n list -> cond

val tagLenBetween : n -> n -> cond

val cipherLenBetween : n -> n -> cond

val cipherLenMultipleOf : n -> cond

val hashLenBetween : n -> n -> cond

val pairedWithHash : n -> cond

val pairedWithCipher : n -> cond

val chainOrderIs : n -> cond

val sglStateIn : n list -> cond

val encrypting : cond

val decrypting : cond

val cipherLenNonZero : cond

val hashLenNonZero : cond

val hasAad : cond

val mB_MAX_LEN16 : n

val r_src : rule

val r_dst : rule

val r_iv : rule

val r_src_if_len : rule

val r_dst_if_len : rule

val r_enc_keys : rule

val r_enc_keys_if_enc : rule

val r_dec_keys_if_dec : rule

val r_key_len : n list -> rule

val r_iv_len : n list -> rule

val r_cipher_len_min : n -> rule

val r_cipher_len : n -> n -> rule

val r_cipher_len_mult : n -> rule

val r_pair_hash : n -> rule

val r_pair_cipher : n -> rule

val r_tag : rule

val r_tag_len : n list -> rule

val r_tag_len_between : n -> n -> rule

val r_hash_len : n -> n -> rule

val r_hash_src : rule

val r_hash_src_if_len : rule

val r_aad : rule

val sglPerSegment : cond

val sglAll : cond

val sgl_rules : n -> rule list

val rules_CBC : rule list

val rules_CBCS_1_9 : rule list

val rules_ECB : rule list

val rules_CNTR : rule list

val rules_CNTR_BITLEN : rule list

val rules_NULL : rule list

val rules_DOCSIS_SEC_BPI : rule list

val rules_GCM : rule list

val rules_GCM_SGL : rule list

val rules_SM4_GCM : rule list

val rules_CUSTOM : rule list

val rules_DES : rule list

val rules_DOCSIS_DES : rule list

val rules_DES3 : rule list

val rules_CCM : rule list

val rules_PON : rule list

val rules_ZUC_EEA3 : rule list

val rules_SNOW3G_UEA2 : rule list

val rules_KASUMI_UEA1 : rule list

val rules_CHACHA20 : rule list

val rules_CHACHA20_POLY1305 : rule list

val rules_CHACHA20_POLY1305_SGL : rule list

val rules_SNOW_V : rule list

val rules_SNOW_V_AEAD : rule list

val rules_SM4_ECB : rule list

val rules_SM4_CBC : rule list

val rules_SM4_CNTR : rule list

val rules_CFB : rule list

val cipher_catalogue : (n * rule list) list

val rules_HMAC : n -> n -> rule list

val rules_XCBC : rule list

val rules_AUTH_NULL : rule list

val rules_CRC : rule list

val rules_AES_GMAC : rule list

val rules_GCM_SGL_HASH : rule list

val rules_GMAC_STANDALONE : rule list

val rules_GHASH : rule list

val rules_AUTH_CUSTOM : rule list

val rules_AES_CCM : rule list

val r_cmac_keys : rule

val rules_CMAC : rule list

val rules_CMAC_BITLEN : rule list

val rules_SHA : n -> rule list

val rules_PON_CRC_BIP : rule list

val rules_ZUC_EIA3 : rule list

val rules_ZUC256_EIA3 : rule list

val rules_DOCSIS_CRC32 : rule list

val rules_SNOW3G_UIA2 : rule list

val rules_KASUMI_UIA1 : rule list

val rules_POLY1305 : rule list

val rules_CHACHA20_POLY1305_HASH : rule list

val rules_CHACHA20_POLY1305_SGL_HASH : rule list

val rules_SNOW_V_AEAD_HASH : rule list

val rules_SM3 : rule list

val rules_HMAC_SM3 : rule list

val rules_SM4_GCM_HASH : rule list

val hash_catalogue : (n * rule list) list

val assoc_rules : n -> (n * rule list) list -> rule list option

val cipher_rules : n -> rule list

val hash_rules : n -> rule list

val r_common_dir : rule

val r_common_mode : rule

val r_common_hash : rule

val common_rules : rule list

val all_rules : job_view -> rule list

val job_ok : job_view -> bool

val violations : job_view -> n list

val disc_D2_key_len_truncated : job_view -> bool

val disc_D3_sgl_total_wraps : job_view -> bool

val disc_D8_docsis_offset_wraps : job_view -> bool

val outside_known_discrepancies : job_view -> bool

val discrepancy_flags : job_view -> n list
