(* selftest_driver: runs the extracted C20 model (Mgr/SelfTest.v: predict / predict0 /
   predict_nocb) on case lines and prints what the library is expected to do.

   usage: selftest_driver <case-file | ->
   input line : <id> <init> <cbmode> <cpu-features-hex> <set>
       init   = sse | avx2 | avx512 | auto
       cbmode = cb | cb0 | nocb
       set    = "-" or comma separated 0-based ordinals of the vectors to corrupt
   output     : CASE <id>
                EV <phase> <type|-> <descr|->      (none for nocb: nothing is shown to anybody)
                RES features=<hex> errno=<d> ret=<0|1> corrupted=<0/1 string>
                END <id>
   plus, once at the start:  ITEMS <n>  and  ITEM <ordinal> <type> <descr>  for every vector. *)
module M = Selftest_model

let rec pos_of_int (i : int) : M.positive =
  if i = 1 then M.XH else if i land 1 = 0 then M.XO (pos_of_int (i lsr 1)) else M.XI (pos_of_int (i lsr 1))
let n_of_int (i : int) : M.n = if i = 0 then M.N0 else M.Npos (pos_of_int i)
let rec int_of_pos = function M.XH -> 1 | M.XO p -> 2 * int_of_pos p | M.XI p -> 2 * int_of_pos p + 1
let int_of_n = function M.N0 -> 0 | M.Npos p -> int_of_pos p
let rec nat_of_int (i : int) : M.nat = if i <= 0 then M.O else M.S (nat_of_int (i - 1))

let char_of_ascii (M.Ascii (b0, b1, b2, b3, b4, b5, b6, b7)) =
  let v b k = if b then 1 lsl k else 0 in
  Char.chr (v b0 0 + v b1 1 + v b2 2 + v b3 3 + v b4 4 + v b5 5 + v b6 6 + v b7 7)
let rec ocaml_string (s : M.string) : string =
  match s with
  | M.EmptyString -> ""
  | M.String (a, t) -> String.make 1 (char_of_ascii a) ^ ocaml_string t

let print_event (e : M.event) =
  match e with
  | M.EvStart (t, d) -> Printf.printf "EV START %s %s\n" (ocaml_string t) (ocaml_string d)
  | M.EvCorrupt -> print_string "EV CORRUPT - -\n"
  | M.EvPass -> print_string "EV PASS - -\n"
  | M.EvFail -> print_string "EV FAIL - -\n"

let init_of = function
  | "sse" -> M.Init_sse | "avx2" -> M.Init_avx2 | "avx512" -> M.Init_avx512 | "auto" -> M.Init_auto
  | s -> failwith ("unknown init function " ^ s)

let parse_set s =
  if s = "-" || s = "" then []
  else List.map (fun x -> nat_of_int (int_of_string x)) (String.split_on_char ',' s)

let bits l = String.concat "" (List.map (fun b -> if b then "1" else "0") l)

let () =
  let ic = if Sys.argv.(1) = "-" then stdin else open_in Sys.argv.(1) in
  Printf.printf "ITEMS %d\n" (List.length M.all_items);
  List.iteri (fun i it ->
      Printf.printf "ITEM %d %s %s\n" i (ocaml_string (M.it_type it)) (ocaml_string (M.vec_descr (M.it_vec it))))
    M.all_items;
  Printf.printf "CONST st=%d pass=%d err=%d\n" (int_of_n M.gen_FEATURE_SELF_TEST)
    (int_of_n M.gen_FEATURE_SELF_TEST_PASS) (int_of_n M.gen_ERR_SELFTEST);
  (try
     while true do
       let line = String.trim (input_line ic) in
       if line <> "" && line.[0] <> '#' then begin
         match String.split_on_char ' ' line |> List.filter (fun t -> t <> "") with
         | [id; init; cbm; cpu; set] ->
             let fn = init_of init in
             let cpu = n_of_int (int_of_string ("0x" ^ cpu)) in
             Printf.printf "CASE %s\n" id;
             let out feats errno ret evs cs show =
               if show then List.iter print_event evs;
               Printf.printf "RES features=%x errno=%d ret=%d corrupted=%s\n" (int_of_n feats) (int_of_n errno)
                 (if ret then 1 else 0) (bits cs) in
             (match cbm with
              | "cb" ->
                  let r = M.predict (parse_set set) fn cpu in
                  out (M.sr_features r) (M.sr_errno r) (M.sr_ret r) (M.sr_events r) (M.sr_corrupted r) true
              | "cb0" ->
                  let r = M.predict0 (parse_set set) fn cpu in
                  out (M.sr_features r) (M.sr_errno r) (M.sr_ret r) (M.sr_events r) (M.sr_corrupted r) true
              | "nocb" ->
                  let r = M.predict_nocb fn cpu in
                  out (M.sr_features r) (M.sr_errno r) (M.sr_ret r) (M.sr_events r) (M.sr_corrupted r) false
              | s -> failwith ("unknown callback mode " ^ s));
             Printf.printf "END %s\n%!" id
         | _ -> failwith ("malformed case line: " ^ line)
       end
     done
   with End_of_file -> ())
