(* k1_driver — model side of the K1 differential correspondence.
   Reads a K1 case file (harness/K1_FORMAT.md), evaluates the extracted Coq job
   model (coq/Struct/JobSem.v, extracted by coq/Extract/ExtractK1.v into
   k1_model.ml) on every work item and prints one line per item:
       id=<id> dst=<hex> tag=<hex>[ niv=<hex>][ loose=<byte index>:<bit mask>,...]
       id=<id> unmodelled
   Usage: k1_driver <casefile|-> [shard nshards]   (items with index mod nshards = shard) *)
open K1_model

(* ---- int <-> N (Coq binary numbers) ---- *)
let rec pos_of_int (i : int) : positive =
  if i = 1 then XH
  else if i land 1 = 0 then XO (pos_of_int (i lsr 1))
  else XI (pos_of_int (i lsr 1))
let n_of_int (i : int) : n = if i <= 0 then N0 else Npos (pos_of_int i)
let byte_tab : n array = Array.init 256 n_of_int
let rec int_of_pos (p : positive) : int =
  match p with XH -> 1 | XO q -> 2 * int_of_pos q | XI q -> 2 * int_of_pos q + 1
let int_of_n (x : n) : int = match x with N0 -> 0 | Npos p -> int_of_pos p

(* ---- hex <-> list N ---- *)
let hexval c =
  match c with
  | '0' .. '9' -> Char.code c - 48
  | 'a' .. 'f' -> Char.code c - 87
  | 'A' .. 'F' -> Char.code c - 55
  | _ -> failwith "bad hex digit"

let bytes_of_hex (s : string) : n list =
  if s = "-" || s = "" then []
  else begin
    let len = String.length s in
    if len land 1 = 1 then failwith "odd hex length";
    let acc = ref [] in
    let i = ref (len - 2) in
    while !i >= 0 do
      acc := byte_tab.((hexval s.[!i] lsl 4) lor hexval s.[!i + 1]) :: !acc;
      i := !i - 2
    done;
    !acc
  end

let hexdigits = "0123456789abcdef"
let hex_of_bytes (l : n list) : string =
  match l with
  | [] -> "-"
  | _ ->
    let b = Buffer.create 256 in
    List.iter (fun x ->
        let v = int_of_n x land 255 in
        Buffer.add_char b hexdigits.[v lsr 4];
        Buffer.add_char b hexdigits.[v land 15]) l;
    Buffer.contents b

(* ---- case file ---- *)
let split_ws (s : string) : string list =
  List.filter (fun t -> t <> "")
    (String.split_on_char ' ' (String.map (fun c -> if c = '\t' || c = '\r' || c = '\n' then ' ' else c) s))

exception Unmodelled

let process (line : string) : unit =
  let toks = split_ws line in
  let tbl = Hashtbl.create 32 in
  List.iter (fun t ->
      match String.index_opt t '=' with
      | Some i -> Hashtbl.replace tbl (String.sub t 0 i) (String.sub t (i + 1) (String.length t - i - 1))
      | None -> ()) toks;
  let get k d = try Hashtbl.find tbl k with Not_found -> d in
  let geti k d = let v = get k "" in if v = "" then d else int_of_string v in
  let id = get "id" "?" in
  try
    if Hashtbl.mem tbl "null" || geti "unsafe" 0 <> 0 then raise Unmodelled;
    let num k d = let v = geti k d in if v < 0 then raise Unmodelled else n_of_int v in
    let w = {
      wi_cipher = num "cipher" 0; wi_hash = num "hash" 0;
      wi_dir = num "dir" 1; wi_order = num "order" 1;
      wi_key = bytes_of_hex (get "key" "-"); wi_akey = bytes_of_hex (get "akey" "-");
      wi_iv = bytes_of_hex (get "iv" "-"); wi_aiv = bytes_of_hex (get "aiv" "-");
      wi_aad = bytes_of_hex (get "aad" "-"); wi_msg = bytes_of_hex (get "msg" "-");
      wi_coff = num "coff" 0; wi_clen = num "clen" 0;
      wi_hoff = num "hoff" 0; wi_hlen = num "hlen" 0;
      wi_tag = num "tag" 0;
      wi_inplace = (geti "inplace" 0 <> 0);
      wi_doff = (if Hashtbl.mem tbl "doff" && geti "doff" (-1) >= 0 then Some (num "doff" 0) else None);
      wi_hdst = (geti "hdst" 0 <> 0) } in
    match job_model w with
    | None -> raise Unmodelled
    | Some (dst, tag) ->
      let niv = match job_model_niv w with
        | Some v -> " niv=" ^ hex_of_bytes v
        | None -> "" in
      let loose = match job_model_loose w with
        | [] -> ""
        | l -> " loose=" ^ String.concat ","
                 (List.map (fun (i, m) -> Printf.sprintf "%d:%d" (int_of_n i) (int_of_n m)) l) in
      Printf.printf "id=%s dst=%s tag=%s%s%s\n" id (hex_of_bytes dst) (hex_of_bytes tag) niv loose
  with
  | Unmodelled -> Printf.printf "id=%s unmodelled\n" id
  | Failure m -> Printf.printf "id=%s unmodelled parse-error:%s\n" id m

let () =
  let file = if Array.length Sys.argv > 1 then Sys.argv.(1) else "-" in
  let shard, nshards =
    if Array.length Sys.argv > 3 then (int_of_string Sys.argv.(2), int_of_string Sys.argv.(3)) else (0, 1) in
  let ic = if file = "-" then stdin else open_in file in
  let idx = ref 0 in
  (try
     while true do
       let line = input_line ic in
       let t = String.trim line in
       if t <> "" && t.[0] <> '#' then begin
         if !idx mod nshards = shard then (process t; flush stdout);
         incr idx
       end
     done
   with End_of_file -> ());
  if file <> "-" then close_in ic
