
(** val implb : bool -> bool -> bool **)

let implb b1 b2 =
  if b1 then b2 else true

(** val negb : bool -> bool **)

let negb = function
| true -> false
| false -> true

type nat =
| O
| S of nat

(** val fst : ('a1 * 'a2) -> 'a1 **)

let fst = function
| (x, _) -> x

(** val snd : ('a1 * 'a2) -> 'a2 **)

let snd = function
| (_, y) -> y

(** val length : 'a1 list -> nat **)

let rec length = function
| [] -> O
| _ :: l' -> S (length l')

(** val app : 'a1 list -> 'a1 list -> 'a1 list **)

let rec app l m =
  match l with
  | [] -> m
  | a :: l1 -> a :: (app l1 m)

type comparison =
| Eq
| Lt
| Gt

module Coq__1 = struct
 (** val add : nat -> nat -> nat **)
 let rec add n0 m =
   match n0 with
   | O -> m
   | S p -> S (add p m)
end
include Coq__1

type positive =
| XI of positive
| XO of positive
| XH

type n =
| N0
| Npos of positive

module Pos =
 struct
  type mask =
  | IsNul
  | IsPos of positive
  | IsNeg
 end

module Coq_Pos =
 struct
  (** val succ : positive -> positive **)

  let rec succ = function
  | XI p -> XO (succ p)
  | XO p -> XI p
  | XH -> XO XH

  (** val add : positive -> positive -> positive **)

  let rec add x y =
    match x with
    | XI p ->
      (match y with
       | XI q -> XO (add_carry p q)
       | XO q -> XI (add p q)
       | XH -> XO (succ p))
    | XO p ->
      (match y with
       | XI q -> XI (add p q)
       | XO q -> XO (add p q)
       | XH -> XI p)
    | XH -> (match y with
             | XI q -> XO (succ q)
             | XO q -> XI q
             | XH -> XO XH)

  (** val add_carry : positive -> positive -> positive **)

  and add_carry x y =
    match x with
    | XI p ->
      (match y with
       | XI q -> XI (add_carry p q)
       | XO q -> XO (add_carry p q)
       | XH -> XI (succ p))
    | XO p ->
      (match y with
       | XI q -> XO (add_carry p q)
       | XO q -> XI (add p q)
       | XH -> XO (succ p))
    | XH ->
      (match y with
       | XI q -> XI (succ q)
       | XO q -> XO (succ q)
       | XH -> XI XH)

  (** val pred_double : positive -> positive **)

  let rec pred_double = function
  | XI p -> XI (XO p)
  | XO p -> XI (pred_double p)
  | XH -> XH

  type mask = Pos.mask =
  | IsNul
  | IsPos of positive
  | IsNeg

  (** val succ_double_mask : mask -> mask **)

  let succ_double_mask = function
  | IsNul -> IsPos XH
  | IsPos p -> IsPos (XI p)
  | IsNeg -> IsNeg

  (** val double_mask : mask -> mask **)

  let double_mask = function
  | IsPos p -> IsPos (XO p)
  | x0 -> x0

  (** val double_pred_mask : positive -> mask **)

  let double_pred_mask = function
  | XI p -> IsPos (XO (XO p))
  | XO p -> IsPos (XO (pred_double p))
  | XH -> IsNul

  (** val sub_mask : positive -> positive -> mask **)

  let rec sub_mask x y =
    match x with
    | XI p ->
      (match y with
       | XI q -> double_mask (sub_mask p q)
       | XO q -> succ_double_mask (sub_mask p q)
       | XH -> IsPos (XO p))
    | XO p ->
      (match y with
       | XI q -> succ_double_mask (sub_mask_carry p q)
       | XO q -> double_mask (sub_mask p q)
       | XH -> IsPos (pred_double p))
    | XH -> (match y with
             | XH -> IsNul
             | _ -> IsNeg)

  (** val sub_mask_carry : positive -> positive -> mask **)

  and sub_mask_carry x y =
    match x with
    | XI p ->
      (match y with
       | XI q -> succ_double_mask (sub_mask_carry p q)
       | XO q -> double_mask (sub_mask p q)
       | XH -> IsPos (pred_double p))
    | XO p ->
      (match y with
       | XI q -> double_mask (sub_mask_carry p q)
       | XO q -> succ_double_mask (sub_mask_carry p q)
       | XH -> double_pred_mask p)
    | XH -> IsNeg

  (** val mul : positive -> positive -> positive **)

  let rec mul x y =
    match x with
    | XI p -> add y (XO (mul p y))
    | XO p -> XO (mul p y)
    | XH -> y

  (** val iter : ('a1 -> 'a1) -> 'a1 -> positive -> 'a1 **)

  let rec iter f x = function
  | XI n' -> f (iter f (iter f x n') n')
  | XO n' -> iter f (iter f x n') n'
  | XH -> f x

  (** val compare_cont : comparison -> positive -> positive -> comparison **)

  let rec compare_cont r x y =
    match x with
    | XI p ->
      (match y with
       | XI q -> compare_cont r p q
       | XO q -> compare_cont Gt p q
       | XH -> Gt)
    | XO p ->
      (match y with
       | XI q -> compare_cont Lt p q
       | XO q -> compare_cont r p q
       | XH -> Gt)
    | XH -> (match y with
             | XH -> r
             | _ -> Lt)

  (** val compare : positive -> positive -> comparison **)

  let compare =
    compare_cont Eq

  (** val eqb : positive -> positive -> bool **)

  let rec eqb p q =
    match p with
    | XI p0 -> (match q with
                | XI q0 -> eqb p0 q0
                | _ -> false)
    | XO p0 -> (match q with
                | XO q0 -> eqb p0 q0
                | _ -> false)
    | XH -> (match q with
             | XH -> true
             | _ -> false)

  (** val coq_Nsucc_double : n -> n **)

  let coq_Nsucc_double = function
  | N0 -> Npos XH
  | Npos p -> Npos (XI p)

  (** val coq_Ndouble : n -> n **)

  let coq_Ndouble = function
  | N0 -> N0
  | Npos p -> Npos (XO p)

  (** val coq_lor : positive -> positive -> positive **)

  let rec coq_lor p q =
    match p with
    | XI p0 ->
      (match q with
       | XI q0 -> XI (coq_lor p0 q0)
       | XO q0 -> XI (coq_lor p0 q0)
       | XH -> p)
    | XO p0 ->
      (match q with
       | XI q0 -> XI (coq_lor p0 q0)
       | XO q0 -> XO (coq_lor p0 q0)
       | XH -> XI p0)
    | XH -> (match q with
             | XO q0 -> XI q0
             | _ -> q)

  (** val coq_land : positive -> positive -> n **)

  let rec coq_land p q =
    match p with
    | XI p0 ->
      (match q with
       | XI q0 -> coq_Nsucc_double (coq_land p0 q0)
       | XO q0 -> coq_Ndouble (coq_land p0 q0)
       | XH -> Npos XH)
    | XO p0 ->
      (match q with
       | XI q0 -> coq_Ndouble (coq_land p0 q0)
       | XO q0 -> coq_Ndouble (coq_land p0 q0)
       | XH -> N0)
    | XH -> (match q with
             | XO _ -> N0
             | _ -> Npos XH)

  (** val shiftl : positive -> n -> positive **)

  let shiftl p = function
  | N0 -> p
  | Npos n1 -> iter (fun x -> XO x) p n1

  (** val iter_op : ('a1 -> 'a1 -> 'a1) -> positive -> 'a1 -> 'a1 **)

  let rec iter_op op p a =
    match p with
    | XI p0 -> op a (iter_op op p0 (op a a))
    | XO p0 -> iter_op op p0 (op a a)
    | XH -> a

  (** val to_nat : positive -> nat **)

  let to_nat x =
    iter_op Coq__1.add x (S O)

  (** val of_succ_nat : nat -> positive **)

  let rec of_succ_nat = function
  | O -> XH
  | S x -> succ (of_succ_nat x)
 end

module N =
 struct
  (** val succ_double : n -> n **)

  let succ_double = function
  | N0 -> Npos XH
  | Npos p -> Npos (XI p)

  (** val double : n -> n **)

  let double = function
  | N0 -> N0
  | Npos p -> Npos (XO p)

  (** val add : n -> n -> n **)

  let add n0 m =
    match n0 with
    | N0 -> m
    | Npos p -> (match m with
                 | N0 -> n0
                 | Npos q -> Npos (Coq_Pos.add p q))

  (** val sub : n -> n -> n **)

  let sub n0 m =
    match n0 with
    | N0 -> N0
    | Npos n' ->
      (match m with
       | N0 -> n0
       | Npos m' ->
         (match Coq_Pos.sub_mask n' m' with
          | Coq_Pos.IsPos p -> Npos p
          | _ -> N0))

  (** val mul : n -> n -> n **)

  let mul n0 m =
    match n0 with
    | N0 -> N0
    | Npos p -> (match m with
                 | N0 -> N0
                 | Npos q -> Npos (Coq_Pos.mul p q))

  (** val compare : n -> n -> comparison **)

  let compare n0 m =
    match n0 with
    | N0 -> (match m with
             | N0 -> Eq
             | Npos _ -> Lt)
    | Npos n' -> (match m with
                  | N0 -> Gt
                  | Npos m' -> Coq_Pos.compare n' m')

  (** val eqb : n -> n -> bool **)

  let eqb n0 m =
    match n0 with
    | N0 -> (match m with
             | N0 -> true
             | Npos _ -> false)
    | Npos p -> (match m with
                 | N0 -> false
                 | Npos q -> Coq_Pos.eqb p q)

  (** val leb : n -> n -> bool **)

  let leb x y =
    match compare x y with
    | Gt -> false
    | _ -> true

  (** val ltb : n -> n -> bool **)

  let ltb x y =
    match compare x y with
    | Lt -> true
    | _ -> false

  (** val div2 : n -> n **)

  let div2 = function
  | N0 -> N0
  | Npos p0 -> (match p0 with
                | XI p -> Npos p
                | XO p -> Npos p
                | XH -> N0)

  (** val pos_div_eucl : positive -> n -> n * n **)

  let rec pos_div_eucl a b =
    match a with
    | XI a' ->
      let (q, r) = pos_div_eucl a' b in
      let r' = succ_double r in
      if leb b r' then ((succ_double q), (sub r' b)) else ((double q), r')
    | XO a' ->
      let (q, r) = pos_div_eucl a' b in
      let r' = double r in
      if leb b r' then ((succ_double q), (sub r' b)) else ((double q), r')
    | XH ->
      (match b with
       | N0 -> (N0, (Npos XH))
       | Npos p -> (match p with
                    | XH -> ((Npos XH), N0)
                    | _ -> (N0, (Npos XH))))

  (** val div_eucl : n -> n -> n * n **)

  let div_eucl a b =
    match a with
    | N0 -> (N0, N0)
    | Npos na -> (match b with
                  | N0 -> (N0, a)
                  | Npos _ -> pos_div_eucl na b)

  (** val modulo : n -> n -> n **)

  let modulo a b =
    snd (div_eucl a b)

  (** val coq_lor : n -> n -> n **)

  let coq_lor n0 m =
    match n0 with
    | N0 -> m
    | Npos p -> (match m with
                 | N0 -> n0
                 | Npos q -> Npos (Coq_Pos.coq_lor p q))

  (** val coq_land : n -> n -> n **)

  let coq_land n0 m =
    match n0 with
    | N0 -> N0
    | Npos p -> (match m with
                 | N0 -> N0
                 | Npos q -> Coq_Pos.coq_land p q)

  (** val shiftl : n -> n -> n **)

  let shiftl a n0 =
    match a with
    | N0 -> N0
    | Npos a0 -> Npos (Coq_Pos.shiftl a0 n0)

  (** val shiftr : n -> n -> n **)

  let shiftr a = function
  | N0 -> a
  | Npos p -> Coq_Pos.iter div2 a p

  (** val to_nat : n -> nat **)

  let to_nat = function
  | N0 -> O
  | Npos p -> Coq_Pos.to_nat p

  (** val of_nat : nat -> n **)

  let of_nat = function
  | O -> N0
  | S n' -> Npos (Coq_Pos.of_succ_nat n')
 end

(** val map : ('a1 -> 'a2) -> 'a1 list -> 'a2 list **)

let rec map f = function
| [] -> []
| a :: t -> (f a) :: (map f t)

(** val flat_map : ('a1 -> 'a2 list) -> 'a1 list -> 'a2 list **)

let rec flat_map f = function
| [] -> []
| x :: t -> app (f x) (flat_map f t)

(** val fold_right : ('a2 -> 'a1 -> 'a1) -> 'a1 -> 'a2 list -> 'a1 **)

let rec fold_right f a0 = function
| [] -> a0
| b :: t -> f b (fold_right f a0 t)

(** val existsb : ('a1 -> bool) -> 'a1 list -> bool **)

let rec existsb f = function
| [] -> false
| a :: l0 -> (||) (f a) (existsb f l0)

(** val forallb : ('a1 -> bool) -> 'a1 list -> bool **)

let rec forallb f = function
| [] -> true
| a :: l0 -> (&&) (f a) (forallb f l0)

type ascii =
| Ascii of bool * bool * bool * bool * bool * bool * bool * bool

type string =
| EmptyString
| String of ascii * string

(** val mask16 : n **)

let mask16 =
  Npos (XI (XI (XI (XI (XI (XI (XI (XI (XI (XI (XI (XI (XI (XI (XI
    XH)))))))))))))))

(** val mask32 : n **)

let mask32 =
  Npos (XI (XI (XI (XI (XI (XI (XI (XI (XI (XI (XI (XI (XI (XI (XI (XI (XI
    (XI (XI (XI (XI (XI (XI (XI (XI (XI (XI (XI (XI (XI (XI
    XH)))))))))))))))))))))))))))))))

(** val mask64 : n **)

let mask64 =
  Npos (XI (XI (XI (XI (XI (XI (XI (XI (XI (XI (XI (XI (XI (XI (XI (XI (XI
    (XI (XI (XI (XI (XI (XI (XI (XI (XI (XI (XI (XI (XI (XI (XI (XI (XI (XI
    (XI (XI (XI (XI (XI (XI (XI (XI (XI (XI (XI (XI (XI (XI (XI (XI (XI (XI
    (XI (XI (XI (XI (XI (XI (XI (XI (XI (XI
    XH)))))))))))))))))))))))))))))))))))))))))))))))))))))))))))))))

(** val w16 : n -> n **)

let w16 x =
  N.coq_land x mask16

(** val w32 : n -> n **)

let w32 x =
  N.coq_land x mask32

(** val w64 : n -> n **)

let w64 x =
  N.coq_land x mask64

(** val add64 : n -> n -> n **)

let add64 a b =
  w64 (N.add a b)

(** val iMB_CIPHER_CBC : n **)

let iMB_CIPHER_CBC =
  Npos XH

(** val iMB_CIPHER_CNTR : n **)

let iMB_CIPHER_CNTR =
  Npos (XO XH)

(** val iMB_CIPHER_NULL : n **)

let iMB_CIPHER_NULL =
  Npos (XI XH)

(** val iMB_CIPHER_DOCSIS_SEC_BPI : n **)

let iMB_CIPHER_DOCSIS_SEC_BPI =
  Npos (XO (XO XH))

(** val iMB_CIPHER_GCM : n **)

let iMB_CIPHER_GCM =
  Npos (XI (XO XH))

(** val iMB_CIPHER_CUSTOM : n **)

let iMB_CIPHER_CUSTOM =
  Npos (XO (XI XH))

(** val iMB_CIPHER_DES : n **)

let iMB_CIPHER_DES =
  Npos (XI (XI XH))

(** val iMB_CIPHER_DOCSIS_DES : n **)

let iMB_CIPHER_DOCSIS_DES =
  Npos (XO (XO (XO XH)))

(** val iMB_CIPHER_CCM : n **)

let iMB_CIPHER_CCM =
  Npos (XI (XO (XO XH)))

(** val iMB_CIPHER_DES3 : n **)

let iMB_CIPHER_DES3 =
  Npos (XO (XI (XO XH)))

(** val iMB_CIPHER_PON_AES_CNTR : n **)

let iMB_CIPHER_PON_AES_CNTR =
  Npos (XI (XI (XO XH)))

(** val iMB_CIPHER_ECB : n **)

let iMB_CIPHER_ECB =
  Npos (XO (XO (XI XH)))

(** val iMB_CIPHER_CNTR_BITLEN : n **)

let iMB_CIPHER_CNTR_BITLEN =
  Npos (XI (XO (XI XH)))

(** val iMB_CIPHER_ZUC_EEA3 : n **)

let iMB_CIPHER_ZUC_EEA3 =
  Npos (XO (XI (XI XH)))

(** val iMB_CIPHER_SNOW3G_UEA2_BITLEN : n **)

let iMB_CIPHER_SNOW3G_UEA2_BITLEN =
  Npos (XI (XI (XI XH)))

(** val iMB_CIPHER_KASUMI_UEA1_BITLEN : n **)

let iMB_CIPHER_KASUMI_UEA1_BITLEN =
  Npos (XO (XO (XO (XO XH))))

(** val iMB_CIPHER_CBCS_1_9 : n **)

let iMB_CIPHER_CBCS_1_9 =
  Npos (XI (XO (XO (XO XH))))

(** val iMB_CIPHER_CHACHA20 : n **)

let iMB_CIPHER_CHACHA20 =
  Npos (XO (XI (XO (XO XH))))

(** val iMB_CIPHER_CHACHA20_POLY1305 : n **)

let iMB_CIPHER_CHACHA20_POLY1305 =
  Npos (XI (XI (XO (XO XH))))

(** val iMB_CIPHER_CHACHA20_POLY1305_SGL : n **)

let iMB_CIPHER_CHACHA20_POLY1305_SGL =
  Npos (XO (XO (XI (XO XH))))

(** val iMB_CIPHER_SNOW_V : n **)

let iMB_CIPHER_SNOW_V =
  Npos (XI (XO (XI (XO XH))))

(** val iMB_CIPHER_SNOW_V_AEAD : n **)

let iMB_CIPHER_SNOW_V_AEAD =
  Npos (XO (XI (XI (XO XH))))

(** val iMB_CIPHER_GCM_SGL : n **)

let iMB_CIPHER_GCM_SGL =
  Npos (XI (XI (XI (XO XH))))

(** val iMB_CIPHER_SM4_ECB : n **)

let iMB_CIPHER_SM4_ECB =
  Npos (XO (XO (XO (XI XH))))

(** val iMB_CIPHER_SM4_CBC : n **)

let iMB_CIPHER_SM4_CBC =
  Npos (XI (XO (XO (XI XH))))

(** val iMB_CIPHER_CFB : n **)

let iMB_CIPHER_CFB =
  Npos (XO (XI (XO (XI XH))))

(** val iMB_CIPHER_SM4_CNTR : n **)

let iMB_CIPHER_SM4_CNTR =
  Npos (XI (XI (XO (XI XH))))

(** val iMB_CIPHER_SM4_GCM : n **)

let iMB_CIPHER_SM4_GCM =
  Npos (XO (XO (XI (XI XH))))

(** val iMB_AUTH_HMAC_SHA_1 : n **)

let iMB_AUTH_HMAC_SHA_1 =
  Npos XH

(** val iMB_AUTH_HMAC_SHA_224 : n **)

let iMB_AUTH_HMAC_SHA_224 =
  Npos (XO XH)

(** val iMB_AUTH_HMAC_SHA_256 : n **)

let iMB_AUTH_HMAC_SHA_256 =
  Npos (XI XH)

(** val iMB_AUTH_HMAC_SHA_384 : n **)

let iMB_AUTH_HMAC_SHA_384 =
  Npos (XO (XO XH))

(** val iMB_AUTH_HMAC_SHA_512 : n **)

let iMB_AUTH_HMAC_SHA_512 =
  Npos (XI (XO XH))

(** val iMB_AUTH_AES_XCBC : n **)

let iMB_AUTH_AES_XCBC =
  Npos (XO (XI XH))

(** val iMB_AUTH_MD5 : n **)

let iMB_AUTH_MD5 =
  Npos (XI (XI XH))

(** val iMB_AUTH_NULL : n **)

let iMB_AUTH_NULL =
  Npos (XO (XO (XO XH)))

(** val iMB_AUTH_AES_GMAC : n **)

let iMB_AUTH_AES_GMAC =
  Npos (XI (XO (XO XH)))

(** val iMB_AUTH_CUSTOM : n **)

let iMB_AUTH_CUSTOM =
  Npos (XO (XI (XO XH)))

(** val iMB_AUTH_AES_CCM : n **)

let iMB_AUTH_AES_CCM =
  Npos (XI (XI (XO XH)))

(** val iMB_AUTH_AES_CMAC : n **)

let iMB_AUTH_AES_CMAC =
  Npos (XO (XO (XI XH)))

(** val iMB_AUTH_SHA_1 : n **)

let iMB_AUTH_SHA_1 =
  Npos (XI (XO (XI XH)))

(** val iMB_AUTH_SHA_224 : n **)

let iMB_AUTH_SHA_224 =
  Npos (XO (XI (XI XH)))

(** val iMB_AUTH_SHA_256 : n **)

let iMB_AUTH_SHA_256 =
  Npos (XI (XI (XI XH)))

(** val iMB_AUTH_SHA_384 : n **)

let iMB_AUTH_SHA_384 =
  Npos (XO (XO (XO (XO XH))))

(** val iMB_AUTH_SHA_512 : n **)

let iMB_AUTH_SHA_512 =
  Npos (XI (XO (XO (XO XH))))

(** val iMB_AUTH_AES_CMAC_BITLEN : n **)

let iMB_AUTH_AES_CMAC_BITLEN =
  Npos (XO (XI (XO (XO XH))))

(** val iMB_AUTH_PON_CRC_BIP : n **)

let iMB_AUTH_PON_CRC_BIP =
  Npos (XI (XI (XO (XO XH))))

(** val iMB_AUTH_ZUC_EIA3_BITLEN : n **)

let iMB_AUTH_ZUC_EIA3_BITLEN =
  Npos (XO (XO (XI (XO XH))))

(** val iMB_AUTH_DOCSIS_CRC32 : n **)

let iMB_AUTH_DOCSIS_CRC32 =
  Npos (XI (XO (XI (XO XH))))

(** val iMB_AUTH_SNOW3G_UIA2_BITLEN : n **)

let iMB_AUTH_SNOW3G_UIA2_BITLEN =
  Npos (XO (XI (XI (XO XH))))

(** val iMB_AUTH_KASUMI_UIA1 : n **)

let iMB_AUTH_KASUMI_UIA1 =
  Npos (XI (XI (XI (XO XH))))

(** val iMB_AUTH_AES_GMAC_128 : n **)

let iMB_AUTH_AES_GMAC_128 =
  Npos (XO (XO (XO (XI XH))))

(** val iMB_AUTH_AES_GMAC_192 : n **)

let iMB_AUTH_AES_GMAC_192 =
  Npos (XI (XO (XO (XI XH))))

(** val iMB_AUTH_AES_GMAC_256 : n **)

let iMB_AUTH_AES_GMAC_256 =
  Npos (XO (XI (XO (XI XH))))

(** val iMB_AUTH_AES_CMAC_256 : n **)

let iMB_AUTH_AES_CMAC_256 =
  Npos (XI (XI (XO (XI XH))))

(** val iMB_AUTH_POLY1305 : n **)

let iMB_AUTH_POLY1305 =
  Npos (XO (XO (XI (XI XH))))

(** val iMB_AUTH_CHACHA20_POLY1305 : n **)

let iMB_AUTH_CHACHA20_POLY1305 =
  Npos (XI (XO (XI (XI XH))))

(** val iMB_AUTH_CHACHA20_POLY1305_SGL : n **)

let iMB_AUTH_CHACHA20_POLY1305_SGL =
  Npos (XO (XI (XI (XI XH))))

(** val iMB_AUTH_ZUC256_EIA3_BITLEN : n **)

let iMB_AUTH_ZUC256_EIA3_BITLEN =
  Npos (XI (XI (XI (XI XH))))

(** val iMB_AUTH_SNOW_V_AEAD : n **)

let iMB_AUTH_SNOW_V_AEAD =
  Npos (XO (XO (XO (XO (XO XH)))))

(** val iMB_AUTH_GCM_SGL : n **)

let iMB_AUTH_GCM_SGL =
  Npos (XI (XO (XO (XO (XO XH)))))

(** val iMB_AUTH_CRC32_ETHERNET_FCS : n **)

let iMB_AUTH_CRC32_ETHERNET_FCS =
  Npos (XO (XI (XO (XO (XO XH)))))

(** val iMB_AUTH_CRC32_SCTP : n **)

let iMB_AUTH_CRC32_SCTP =
  Npos (XI (XI (XO (XO (XO XH)))))

(** val iMB_AUTH_CRC32_WIMAX_OFDMA_DATA : n **)

let iMB_AUTH_CRC32_WIMAX_OFDMA_DATA =
  Npos (XO (XO (XI (XO (XO XH)))))

(** val iMB_AUTH_CRC24_LTE_A : n **)

let iMB_AUTH_CRC24_LTE_A =
  Npos (XI (XO (XI (XO (XO XH)))))

(** val iMB_AUTH_CRC24_LTE_B : n **)

let iMB_AUTH_CRC24_LTE_B =
  Npos (XO (XI (XI (XO (XO XH)))))

(** val iMB_AUTH_CRC16_X25 : n **)

let iMB_AUTH_CRC16_X25 =
  Npos (XI (XI (XI (XO (XO XH)))))

(** val iMB_AUTH_CRC16_FP_DATA : n **)

let iMB_AUTH_CRC16_FP_DATA =
  Npos (XO (XO (XO (XI (XO XH)))))

(** val iMB_AUTH_CRC11_FP_HEADER : n **)

let iMB_AUTH_CRC11_FP_HEADER =
  Npos (XI (XO (XO (XI (XO XH)))))

(** val iMB_AUTH_CRC10_IUUP_DATA : n **)

let iMB_AUTH_CRC10_IUUP_DATA =
  Npos (XO (XI (XO (XI (XO XH)))))

(** val iMB_AUTH_CRC8_WIMAX_OFDMA_HCS : n **)

let iMB_AUTH_CRC8_WIMAX_OFDMA_HCS =
  Npos (XI (XI (XO (XI (XO XH)))))

(** val iMB_AUTH_CRC7_FP_HEADER : n **)

let iMB_AUTH_CRC7_FP_HEADER =
  Npos (XO (XO (XI (XI (XO XH)))))

(** val iMB_AUTH_CRC6_IUUP_HEADER : n **)

let iMB_AUTH_CRC6_IUUP_HEADER =
  Npos (XI (XO (XI (XI (XO XH)))))

(** val iMB_AUTH_GHASH : n **)

let iMB_AUTH_GHASH =
  Npos (XO (XI (XI (XI (XO XH)))))

(** val iMB_AUTH_SM3 : n **)

let iMB_AUTH_SM3 =
  Npos (XI (XI (XI (XI (XO XH)))))

(** val iMB_AUTH_HMAC_SM3 : n **)

let iMB_AUTH_HMAC_SM3 =
  Npos (XO (XO (XO (XO (XI XH)))))

(** val iMB_AUTH_SM4_GCM : n **)

let iMB_AUTH_SM4_GCM =
  Npos (XI (XO (XO (XO (XI XH)))))

(** val iMB_ERR_JOB_NULL_SRC : n **)

let iMB_ERR_JOB_NULL_SRC =
  Npos (XO (XI (XO (XO (XI (XO (XI (XI (XI (XI XH))))))))))

(** val iMB_ERR_JOB_NULL_DST : n **)

let iMB_ERR_JOB_NULL_DST =
  Npos (XI (XI (XO (XO (XI (XO (XI (XI (XI (XI XH))))))))))

(** val iMB_ERR_JOB_NULL_KEY : n **)

let iMB_ERR_JOB_NULL_KEY =
  Npos (XO (XO (XI (XO (XI (XO (XI (XI (XI (XI XH))))))))))

(** val iMB_ERR_JOB_NULL_IV : n **)

let iMB_ERR_JOB_NULL_IV =
  Npos (XI (XO (XI (XO (XI (XO (XI (XI (XI (XI XH))))))))))

(** val iMB_ERR_JOB_NULL_AUTH : n **)

let iMB_ERR_JOB_NULL_AUTH =
  Npos (XO (XI (XI (XO (XI (XO (XI (XI (XI (XI XH))))))))))

(** val iMB_ERR_JOB_NULL_AAD : n **)

let iMB_ERR_JOB_NULL_AAD =
  Npos (XI (XI (XI (XO (XI (XO (XI (XI (XI (XI XH))))))))))

(** val iMB_ERR_JOB_CIPH_LEN : n **)

let iMB_ERR_JOB_CIPH_LEN =
  Npos (XO (XO (XO (XI (XI (XO (XI (XI (XI (XI XH))))))))))

(** val iMB_ERR_JOB_AUTH_LEN : n **)

let iMB_ERR_JOB_AUTH_LEN =
  Npos (XI (XO (XO (XI (XI (XO (XI (XI (XI (XI XH))))))))))

(** val iMB_ERR_JOB_IV_LEN : n **)

let iMB_ERR_JOB_IV_LEN =
  Npos (XO (XI (XO (XI (XI (XO (XI (XI (XI (XI XH))))))))))

(** val iMB_ERR_JOB_KEY_LEN : n **)

let iMB_ERR_JOB_KEY_LEN =
  Npos (XI (XI (XO (XI (XI (XO (XI (XI (XI (XI XH))))))))))

(** val iMB_ERR_JOB_AUTH_TAG_LEN : n **)

let iMB_ERR_JOB_AUTH_TAG_LEN =
  Npos (XO (XO (XI (XI (XI (XO (XI (XI (XI (XI XH))))))))))

(** val iMB_ERR_JOB_AAD_LEN : n **)

let iMB_ERR_JOB_AAD_LEN =
  Npos (XI (XO (XI (XI (XI (XO (XI (XI (XI (XI XH))))))))))

(** val iMB_ERR_JOB_SRC_OFFSET : n **)

let iMB_ERR_JOB_SRC_OFFSET =
  Npos (XO (XI (XI (XI (XI (XO (XI (XI (XI (XI XH))))))))))

(** val iMB_ERR_JOB_CHAIN_ORDER : n **)

let iMB_ERR_JOB_CHAIN_ORDER =
  Npos (XI (XI (XI (XI (XI (XO (XI (XI (XI (XI XH))))))))))

(** val iMB_ERR_CIPH_MODE : n **)

let iMB_ERR_CIPH_MODE =
  Npos (XO (XO (XO (XO (XO (XI (XI (XI (XI (XI XH))))))))))

(** val iMB_ERR_HASH_ALGO : n **)

let iMB_ERR_HASH_ALGO =
  Npos (XI (XO (XO (XO (XO (XI (XI (XI (XI (XI XH))))))))))

(** val iMB_ERR_JOB_NULL_AUTH_KEY : n **)

let iMB_ERR_JOB_NULL_AUTH_KEY =
  Npos (XO (XI (XO (XO (XO (XI (XI (XI (XI (XI XH))))))))))

(** val iMB_ERR_JOB_NULL_SGL_CTX : n **)

let iMB_ERR_JOB_NULL_SGL_CTX =
  Npos (XI (XI (XO (XO (XO (XI (XI (XI (XI (XI XH))))))))))

(** val iMB_ERR_JOB_NULL_NEXT_IV : n **)

let iMB_ERR_JOB_NULL_NEXT_IV =
  Npos (XO (XO (XI (XO (XO (XI (XI (XI (XI (XI XH))))))))))

(** val iMB_ERR_JOB_PON_PLI : n **)

let iMB_ERR_JOB_PON_PLI =
  Npos (XI (XO (XI (XO (XO (XI (XI (XI (XI (XI XH))))))))))

(** val iMB_ERR_JOB_NULL_HMAC_OPAD : n **)

let iMB_ERR_JOB_NULL_HMAC_OPAD =
  Npos (XO (XI (XI (XO (XI (XI (XI (XI (XI (XI XH))))))))))

(** val iMB_ERR_JOB_NULL_HMAC_IPAD : n **)

let iMB_ERR_JOB_NULL_HMAC_IPAD =
  Npos (XI (XI (XI (XO (XI (XI (XI (XI (XI (XI XH))))))))))

(** val iMB_ERR_JOB_NULL_XCBC_K1_EXP : n **)

let iMB_ERR_JOB_NULL_XCBC_K1_EXP =
  Npos (XO (XO (XO (XI (XI (XI (XI (XI (XI (XI XH))))))))))

(** val iMB_ERR_JOB_NULL_XCBC_K2 : n **)

let iMB_ERR_JOB_NULL_XCBC_K2 =
  Npos (XI (XO (XO (XI (XI (XI (XI (XI (XI (XI XH))))))))))

(** val iMB_ERR_JOB_NULL_XCBC_K3 : n **)

let iMB_ERR_JOB_NULL_XCBC_K3 =
  Npos (XO (XI (XO (XI (XI (XI (XI (XI (XI (XI XH))))))))))

(** val iMB_ERR_JOB_CIPH_DIR : n **)

let iMB_ERR_JOB_CIPH_DIR =
  Npos (XI (XI (XO (XI (XI (XI (XI (XI (XI (XI XH))))))))))

(** val iMB_ERR_JOB_NULL_GHASH_INIT_TAG : n **)

let iMB_ERR_JOB_NULL_GHASH_INIT_TAG =
  Npos (XO (XO (XI (XI (XI (XI (XI (XI (XI (XI XH))))))))))

(** val iMB_ERR_JOB_SGL_STATE : n **)

let iMB_ERR_JOB_SGL_STATE =
  Npos (XI (XO (XI (XO (XO (XO (XO (XO (XO (XO (XO XH)))))))))))

(** val iMB_DIR_ENCRYPT : n **)

let iMB_DIR_ENCRYPT =
  Npos XH

(** val iMB_DIR_DECRYPT : n **)

let iMB_DIR_DECRYPT =
  Npos (XO XH)

(** val iMB_ORDER_CIPHER_HASH : n **)

let iMB_ORDER_CIPHER_HASH =
  Npos XH

(** val iMB_ORDER_HASH_CIPHER : n **)

let iMB_ORDER_HASH_CIPHER =
  Npos (XO XH)

(** val iMB_SGL_INIT : n **)

let iMB_SGL_INIT =
  N0

(** val iMB_SGL_UPDATE : n **)

let iMB_SGL_UPDATE =
  Npos XH

(** val iMB_SGL_COMPLETE : n **)

let iMB_SGL_COMPLETE =
  Npos (XO XH)

(** val iMB_SGL_ALL : n **)

let iMB_SGL_ALL =
  Npos (XI XH)

(** val iMB_GCM_MAX_LEN : n **)

let iMB_GCM_MAX_LEN =
  Npos (XI (XI (XI (XI (XI (XO (XI (XI (XI (XI (XI (XI (XI (XI (XI (XI (XI
    (XI (XI (XI (XI (XI (XI (XI (XI (XI (XI (XI (XI (XI (XI (XI (XI (XI (XI
    XH)))))))))))))))))))))))))))))))))))

(** val iMB_CHACHA20_POLY1305_MAX_LEN : n **)

let iMB_CHACHA20_POLY1305_MAX_LEN =
  Npos (XO (XO (XO (XO (XO (XO (XI (XI (XI (XI (XI (XI (XI (XI (XI (XI (XI
    (XI (XI (XI (XI (XI (XI (XI (XI (XI (XI (XI (XI (XI (XI (XI (XI (XI (XI
    (XI (XI XH)))))))))))))))))))))))))))))))))))))

(** val iMB_CCM_AAD_MAX_SIZE : n **)

let iMB_CCM_AAD_MAX_SIZE =
  Npos (XO (XI (XI (XI (XO XH)))))

(** val iMB_SM3_DIGEST_SIZE : n **)

let iMB_SM3_DIGEST_SIZE =
  Npos (XO (XO (XO (XO (XO XH)))))

(** val errno_EFAULT : n **)

let errno_EFAULT =
  Npos (XO (XI (XI XH)))

(** val errno_EINVAL : n **)

let errno_EINVAL =
  Npos (XO (XI (XI (XO XH))))

type sgl_seg = { seg_in : n; seg_out : n; seg_len : n }

type job_view = { jv_enc_keys : n; jv_dec_keys : n; jv_key_len_in_bytes : 
                  n; jv_src : n; jv_dst : n; jv_cipher_start_src_offset : 
                  n; jv_msg_len_to_cipher : n; jv_hash_start_src_offset : 
                  n; jv_msg_len_to_hash : n; jv_iv : n;
                  jv_iv_len_in_bytes : n; jv_auth_tag_output : n;
                  jv_auth_tag_output_len : n; jv_u0 : n; jv_u1 : n;
                  jv_u2 : n; jv_cipher_mode : n; jv_cipher_direction : 
                  n; jv_hash_alg : n; jv_chain_order : n; jv_cipher_func : 
                  n; jv_hash_func : n; jv_sgl_state : n; jv_next_iv : 
                  n; jv_enc_ks0 : n; jv_enc_ks1 : n; jv_enc_ks2 : n;
                  jv_dec_ks0 : n; jv_dec_ks1 : n; jv_dec_ks2 : n;
                  jv_mem_xgem_hdr : n; jv_sgl_segs : sgl_seg list }

(** val jv_sgl_io_segs : job_view -> n **)

let jv_sgl_io_segs j =
  j.jv_src

(** val jv_num_sgl_io_segs : job_view -> n **)

let jv_num_sgl_io_segs j =
  j.jv_dst

(** val sub64 : n -> n -> n **)

let sub64 a b =
  w64
    (N.sub
      (N.add a (Npos (XO (XO (XO (XO (XO (XO (XO (XO (XO (XO (XO (XO (XO (XO
        (XO (XO (XO (XO (XO (XO (XO (XO (XO (XO (XO (XO (XO (XO (XO (XO (XO
        (XO (XO (XO (XO (XO (XO (XO (XO (XO (XO (XO (XO (XO (XO (XO (XO (XO
        (XO (XO (XO (XO (XO (XO (XO (XO (XO (XO (XO (XO (XO (XO (XO (XO
        XH))))))))))))))))))))))))))))))))))))))))))))))))))))))))))))))))))
      (w64 b))

(** val mul64 : n -> n -> n **)

let mul64 a b =
  w64 (N.mul a b)

(** val sub32 : n -> n -> n **)

let sub32 a b =
  w32
    (N.sub
      (N.add a (Npos (XO (XO (XO (XO (XO (XO (XO (XO (XO (XO (XO (XO (XO (XO
        (XO (XO (XO (XO (XO (XO (XO (XO (XO (XO (XO (XO (XO (XO (XO (XO (XO
        (XO XH)))))))))))))))))))))))))))))))))) (w32 b))

(** val bswap64 : n -> n **)

let bswap64 x =
  N.coq_lor
    (N.shiftl (N.coq_land x (Npos (XI (XI (XI (XI (XI (XI (XI XH)))))))))
      (Npos (XO (XO (XO (XI (XI XH)))))))
    (N.coq_lor
      (N.shiftl
        (N.coq_land (N.shiftr x (Npos (XO (XO (XO XH))))) (Npos (XI (XI (XI
          (XI (XI (XI (XI XH))))))))) (Npos (XO (XO (XO (XO (XI XH)))))))
      (N.coq_lor
        (N.shiftl
          (N.coq_land (N.shiftr x (Npos (XO (XO (XO (XO XH)))))) (Npos (XI
            (XI (XI (XI (XI (XI (XI XH))))))))) (Npos (XO (XO (XO (XI (XO
          XH)))))))
        (N.coq_lor
          (N.shiftl
            (N.coq_land (N.shiftr x (Npos (XO (XO (XO (XI XH)))))) (Npos (XI
              (XI (XI (XI (XI (XI (XI XH))))))))) (Npos (XO (XO (XO (XO (XO
            XH)))))))
          (N.coq_lor
            (N.shiftl
              (N.coq_land (N.shiftr x (Npos (XO (XO (XO (XO (XO XH)))))))
                (Npos (XI (XI (XI (XI (XI (XI (XI XH))))))))) (Npos (XO (XO
              (XO (XI XH))))))
            (N.coq_lor
              (N.shiftl
                (N.coq_land (N.shiftr x (Npos (XO (XO (XO (XI (XO XH)))))))
                  (Npos (XI (XI (XI (XI (XI (XI (XI XH))))))))) (Npos (XO (XO
                (XO (XO XH))))))
              (N.coq_lor
                (N.shiftl
                  (N.coq_land (N.shiftr x (Npos (XO (XO (XO (XO (XI XH)))))))
                    (Npos (XI (XI (XI (XI (XI (XI (XI XH))))))))) (Npos (XO
                  (XO (XO XH)))))
                (N.coq_land (N.shiftr x (Npos (XO (XO (XO (XI (XI XH)))))))
                  (Npos (XI (XI (XI (XI (XI (XI (XI XH)))))))))))))))

(** val nth_N_aux : n list -> nat -> n **)

let rec nth_N_aux l i =
  match l with
  | [] -> N0
  | x :: t -> (match i with
               | O -> x
               | S k -> nth_N_aux t k)

(** val nth_N : n list -> n -> n **)

let nth_N l i =
  nth_N_aux l (N.to_nat i)

(** val oseq : n option -> n option -> n option **)

let oseq a b =
  match a with
  | Some e -> Some e
  | None -> b

(** val eRR_MODEL_VIEW_EXHAUSTED : n **)

let eRR_MODEL_VIEW_EXHAUSTED =
  Npos (XI (XI (XI (XI (XI (XI (XI (XI (XI (XI (XI (XI (XI (XI (XI (XI (XI
    (XI (XI (XI (XI (XI (XI (XI (XI (XI (XI (XI (XI (XI (XI
    XH)))))))))))))))))))))))))))))))

(** val u64_ok : n -> bool **)

let u64_ok x =
  N.ltb x (Npos (XO (XO (XO (XO (XO (XO (XO (XO (XO (XO (XO (XO (XO (XO (XO
    (XO (XO (XO (XO (XO (XO (XO (XO (XO (XO (XO (XO (XO (XO (XO (XO (XO (XO
    (XO (XO (XO (XO (XO (XO (XO (XO (XO (XO (XO (XO (XO (XO (XO (XO (XO (XO
    (XO (XO (XO (XO (XO (XO (XO (XO (XO (XO (XO (XO (XO
    XH)))))))))))))))))))))))))))))))))))))))))))))))))))))))))))))))))

(** val u32_ok : n -> bool **)

let u32_ok x =
  N.ltb x (Npos (XO (XO (XO (XO (XO (XO (XO (XO (XO (XO (XO (XO (XO (XO (XO
    (XO (XO (XO (XO (XO (XO (XO (XO (XO (XO (XO (XO (XO (XO (XO (XO (XO
    XH)))))))))))))))))))))))))))))))))

(** val seg_ok : sgl_seg -> bool **)

let seg_ok s =
  (&&) ((&&) (u64_ok s.seg_in) (u64_ok s.seg_out)) (u64_ok s.seg_len)

(** val widths_ok : job_view -> bool **)

let widths_ok j =
  (&&)
    ((&&)
      ((&&)
        ((&&)
          ((&&)
            ((&&)
              ((&&)
                ((&&)
                  ((&&)
                    ((&&)
                      ((&&)
                        ((&&)
                          ((&&)
                            ((&&)
                              ((&&)
                                ((&&)
                                  ((&&)
                                    ((&&)
                                      ((&&)
                                        ((&&)
                                          ((&&)
                                            ((&&)
                                              ((&&)
                                                ((&&)
                                                  ((&&)
                                                    ((&&)
                                                      ((&&)
                                                        ((&&)
                                                          ((&&)
                                                            ((&&)
                                                              ((&&)
                                                                (u64_ok
                                                                  j.jv_enc_keys)
                                                                (u64_ok
                                                                  j.jv_dec_keys))
                                                              (u64_ok
                                                                j.jv_key_len_in_bytes))
                                                            (u64_ok j.jv_src))
                                                          (u64_ok j.jv_dst))
                                                        (u64_ok
                                                          j.jv_cipher_start_src_offset))
                                                      (u64_ok
                                                        j.jv_msg_len_to_cipher))
                                                    (u64_ok
                                                      j.jv_hash_start_src_offset))
                                                  (u64_ok
                                                    j.jv_msg_len_to_hash))
                                                (u64_ok j.jv_iv))
                                              (u64_ok j.jv_iv_len_in_bytes))
                                            (u64_ok j.jv_auth_tag_output))
                                          (u64_ok j.jv_auth_tag_output_len))
                                        (u64_ok j.jv_u0)) (u64_ok j.jv_u1))
                                    (u64_ok j.jv_u2))
                                  (u32_ok j.jv_cipher_mode))
                                (u32_ok j.jv_cipher_direction))
                              (u32_ok j.jv_hash_alg))
                            (u32_ok j.jv_chain_order))
                          (u64_ok j.jv_cipher_func)) (u64_ok j.jv_hash_func))
                      (u32_ok j.jv_sgl_state)) (u64_ok j.jv_next_iv))
                  (u64_ok j.jv_enc_ks0)) (u64_ok j.jv_enc_ks1))
              (u64_ok j.jv_enc_ks2)) (u64_ok j.jv_dec_ks0))
          (u64_ok j.jv_dec_ks1)) (u64_ok j.jv_dec_ks2))
      (u64_ok j.jv_mem_xgem_hdr)) (forallb seg_ok j.jv_sgl_segs)

(** val sgl_view_ok : job_view -> bool **)

let sgl_view_ok j =
  (&&) (N.eqb (N.of_nat (length j.jv_sgl_segs)) (jv_num_sgl_io_segs j))
    (N.ltb
      (N.add (jv_sgl_io_segs j)
        (N.mul (Npos (XO (XO (XO (XI XH))))) (jv_num_sgl_io_segs j))) (Npos
      (XO (XO (XO (XO (XO (XO (XO (XO (XO (XO (XO (XO (XO (XO (XO (XO (XO (XO
      (XO (XO (XO (XO (XO (XO (XO (XO (XO (XO (XO (XO (XO (XO (XO (XO (XO (XO
      (XO (XO (XO (XO (XO (XO (XO (XO (XO (XO (XO (XO (XO (XO (XO (XO (XO (XO
      (XO (XO (XO (XO (XO (XO (XO (XO (XO (XO
      XH))))))))))))))))))))))))))))))))))))))))))))))))))))))))))))))))))

(** val uses_sgl_array : job_view -> bool **)

let uses_sgl_array j =
  (&&)
    ((||) (N.eqb j.jv_cipher_mode iMB_CIPHER_GCM_SGL)
      (N.eqb j.jv_cipher_mode iMB_CIPHER_CHACHA20_POLY1305_SGL))
    (N.eqb j.jv_sgl_state iMB_SGL_ALL)

(** val well_formed : job_view -> bool **)

let well_formed j =
  (&&) (widths_ok j) (implb (uses_sgl_array j) (sgl_view_ok j))

(** val is_job_invalid_light_sw1_IMB_CIPHER_NULL :
    job_view -> n -> n -> n -> n -> n option **)

let is_job_invalid_light_sw1_IMB_CIPHER_NULL _ _ _ _ _ =
  None

(** val is_job_invalid_light_sw1_IMB_CIPHER_CBCS_1_9 :
    job_view -> n -> n -> n -> n -> n option **)

let is_job_invalid_light_sw1_IMB_CIPHER_CBCS_1_9 _ _ _ _ key_len_in_bytes =
  if negb (N.eqb key_len_in_bytes (Npos (XO (XO (XO (XO XH))))))
  then Some iMB_ERR_JOB_KEY_LEN
  else None

(** val is_job_invalid_light_sw1_IMB_CIPHER_CBC :
    job_view -> n -> n -> n -> n -> n option **)

let is_job_invalid_light_sw1_IMB_CIPHER_CBC _ _ _ _ key_len_in_bytes =
  if (&&)
       ((&&) (negb (N.eqb key_len_in_bytes (Npos (XO (XO (XO (XO XH)))))))
         (negb (N.eqb key_len_in_bytes (Npos (XO (XO (XO (XI XH))))))))
       (negb (N.eqb key_len_in_bytes (Npos (XO (XO (XO (XO (XO XH))))))))
  then Some iMB_ERR_JOB_KEY_LEN
  else None

(** val is_job_invalid_light_sw1_IMB_CIPHER_DOCSIS_SEC_BPI :
    job_view -> n -> n -> n -> n -> n option **)

let is_job_invalid_light_sw1_IMB_CIPHER_DOCSIS_SEC_BPI _ _ _ _ key_len_in_bytes =
  if (&&) (negb (N.eqb key_len_in_bytes (Npos (XO (XO (XO (XO XH)))))))
       (negb (N.eqb key_len_in_bytes (Npos (XO (XO (XO (XO (XO XH))))))))
  then Some iMB_ERR_JOB_KEY_LEN
  else None

(** val is_job_invalid_light_sw1_IMB_CIPHER_GCM :
    job_view -> n -> n -> n -> n -> n option **)

let is_job_invalid_light_sw1_IMB_CIPHER_GCM _ cipher_mode hash_alg _ key_len_in_bytes =
  if (&&)
       ((&&) (negb (N.eqb key_len_in_bytes (Npos (XO (XO (XO (XO XH)))))))
         (negb (N.eqb key_len_in_bytes (Npos (XO (XO (XO (XI XH))))))))
       (negb (N.eqb key_len_in_bytes (Npos (XO (XO (XO (XO (XO XH))))))))
  then Some iMB_ERR_JOB_KEY_LEN
  else if (&&) (N.eqb cipher_mode iMB_CIPHER_GCM)
            (negb (N.eqb hash_alg iMB_AUTH_AES_GMAC))
       then Some iMB_ERR_HASH_ALGO
       else if (&&) (N.eqb cipher_mode iMB_CIPHER_GCM_SGL)
                 (negb (N.eqb hash_alg iMB_AUTH_GCM_SGL))
            then Some iMB_ERR_HASH_ALGO
            else None

(** val is_job_invalid_light_sw1_IMB_CIPHER_SM4_GCM :
    job_view -> n -> n -> n -> n -> n option **)

let is_job_invalid_light_sw1_IMB_CIPHER_SM4_GCM _ cipher_mode hash_alg _ key_len_in_bytes =
  if negb (N.eqb key_len_in_bytes (Npos (XO (XO (XO (XO XH))))))
  then Some iMB_ERR_JOB_KEY_LEN
  else if (&&) (N.eqb cipher_mode iMB_CIPHER_SM4_GCM)
            (negb (N.eqb hash_alg iMB_AUTH_SM4_GCM))
       then Some iMB_ERR_HASH_ALGO
       else None

(** val is_job_invalid_light_sw1_IMB_CIPHER_DES :
    job_view -> n -> n -> n -> n -> n option **)

let is_job_invalid_light_sw1_IMB_CIPHER_DES _ _ _ _ key_len_in_bytes =
  if negb (N.eqb key_len_in_bytes (Npos (XO (XO (XO XH)))))
  then Some iMB_ERR_JOB_KEY_LEN
  else None

(** val is_job_invalid_light_sw1_IMB_CIPHER_CCM :
    job_view -> n -> n -> n -> n -> n option **)

let is_job_invalid_light_sw1_IMB_CIPHER_CCM _ _ hash_alg _ key_len_in_bytes =
  if (&&) (negb (N.eqb key_len_in_bytes (Npos (XO (XO (XO (XO XH)))))))
       (negb (N.eqb key_len_in_bytes (Npos (XO (XO (XO (XO (XO XH))))))))
  then Some iMB_ERR_JOB_KEY_LEN
  else if negb (N.eqb hash_alg iMB_AUTH_AES_CCM)
       then Some iMB_ERR_HASH_ALGO
       else None

(** val is_job_invalid_light_sw1_IMB_CIPHER_DES3 :
    job_view -> n -> n -> n -> n -> n option **)

let is_job_invalid_light_sw1_IMB_CIPHER_DES3 _ _ _ _ key_len_in_bytes =
  if negb (N.eqb key_len_in_bytes (Npos (XO (XO (XO (XI XH))))))
  then Some iMB_ERR_JOB_KEY_LEN
  else None

(** val is_job_invalid_light_sw1_IMB_CIPHER_PON_AES_CNTR :
    job_view -> n -> n -> n -> n -> n option **)

let is_job_invalid_light_sw1_IMB_CIPHER_PON_AES_CNTR _ _ hash_alg _ _ =
  if negb (N.eqb hash_alg iMB_AUTH_PON_CRC_BIP)
  then Some iMB_ERR_HASH_ALGO
  else None

(** val is_job_invalid_light_sw1_IMB_CIPHER_ZUC_EEA3 :
    job_view -> n -> n -> n -> n -> n option **)

let is_job_invalid_light_sw1_IMB_CIPHER_ZUC_EEA3 _ _ _ _ key_len_in_bytes =
  if (&&) (negb (N.eqb key_len_in_bytes (Npos (XO (XO (XO (XO XH)))))))
       (negb (N.eqb key_len_in_bytes (Npos (XO (XO (XO (XO (XO XH))))))))
  then Some iMB_ERR_JOB_KEY_LEN
  else None

(** val is_job_invalid_light_sw1_IMB_CIPHER_SNOW3G_UEA2_BITLEN :
    job_view -> n -> n -> n -> n -> n option **)

let is_job_invalid_light_sw1_IMB_CIPHER_SNOW3G_UEA2_BITLEN _ _ _ _ key_len_in_bytes =
  if negb (N.eqb key_len_in_bytes (Npos (XO (XO (XO (XO XH))))))
  then Some iMB_ERR_JOB_KEY_LEN
  else None

(** val is_job_invalid_light_sw1_IMB_CIPHER_CHACHA20 :
    job_view -> n -> n -> n -> n -> n option **)

let is_job_invalid_light_sw1_IMB_CIPHER_CHACHA20 _ _ _ _ key_len_in_bytes =
  if negb (N.eqb key_len_in_bytes (Npos (XO (XO (XO (XO (XO XH)))))))
  then Some iMB_ERR_JOB_KEY_LEN
  else None

(** val is_job_invalid_light_sw1_IMB_CIPHER_CHACHA20_POLY1305 :
    job_view -> n -> n -> n -> n -> n option **)

let is_job_invalid_light_sw1_IMB_CIPHER_CHACHA20_POLY1305 _ cipher_mode hash_alg _ key_len_in_bytes =
  if negb (N.eqb key_len_in_bytes (Npos (XO (XO (XO (XO (XO XH)))))))
  then Some iMB_ERR_JOB_KEY_LEN
  else if (&&) (N.eqb cipher_mode iMB_CIPHER_CHACHA20_POLY1305)
            (negb (N.eqb hash_alg iMB_AUTH_CHACHA20_POLY1305))
       then Some iMB_ERR_HASH_ALGO
       else if (&&) (N.eqb cipher_mode iMB_CIPHER_CHACHA20_POLY1305_SGL)
                 (negb (N.eqb hash_alg iMB_AUTH_CHACHA20_POLY1305_SGL))
            then Some iMB_ERR_HASH_ALGO
            else None

(** val is_job_invalid_light_sw1_IMB_CIPHER_SNOW_V_AEAD :
    job_view -> n -> n -> n -> n -> n option **)

let is_job_invalid_light_sw1_IMB_CIPHER_SNOW_V_AEAD _ cipher_mode hash_alg _ key_len_in_bytes =
  if negb (N.eqb key_len_in_bytes (Npos (XO (XO (XO (XO (XO XH)))))))
  then Some iMB_ERR_JOB_KEY_LEN
  else if (&&) (N.eqb cipher_mode iMB_CIPHER_SNOW_V_AEAD)
            (negb (N.eqb hash_alg iMB_AUTH_SNOW_V_AEAD))
       then Some iMB_ERR_HASH_ALGO
       else None

(** val is_job_invalid_light_sw1_IMB_CIPHER_CFB :
    job_view -> n -> n -> n -> n -> n option **)

let is_job_invalid_light_sw1_IMB_CIPHER_CFB _ _ _ _ key_len_in_bytes =
  if (&&)
       ((&&) (negb (N.eqb key_len_in_bytes (Npos (XO (XO (XO (XO XH)))))))
         (negb (N.eqb key_len_in_bytes (Npos (XO (XO (XO (XI XH))))))))
       (negb (N.eqb key_len_in_bytes (Npos (XO (XO (XO (XO (XO XH))))))))
  then Some iMB_ERR_JOB_KEY_LEN
  else None

(** val is_job_invalid_light_sw1_default :
    job_view -> n -> n -> n -> n -> n option **)

let is_job_invalid_light_sw1_default _ _ _ _ _ =
  Some iMB_ERR_CIPH_MODE

(** val is_job_invalid_light_sw1 :
    job_view -> n -> n -> n -> n -> n option **)

let is_job_invalid_light_sw1 j cipher_mode hash_alg cipher_direction key_len_in_bytes =
  if (||) (N.eqb cipher_mode iMB_CIPHER_NULL)
       (N.eqb cipher_mode iMB_CIPHER_CUSTOM)
  then is_job_invalid_light_sw1_IMB_CIPHER_NULL j cipher_mode hash_alg
         cipher_direction key_len_in_bytes
  else if N.eqb cipher_mode iMB_CIPHER_CBCS_1_9
       then is_job_invalid_light_sw1_IMB_CIPHER_CBCS_1_9 j cipher_mode
              hash_alg cipher_direction key_len_in_bytes
       else if (||)
                 ((||)
                   ((||) (N.eqb cipher_mode iMB_CIPHER_CBC)
                     (N.eqb cipher_mode iMB_CIPHER_ECB))
                   (N.eqb cipher_mode iMB_CIPHER_CNTR))
                 (N.eqb cipher_mode iMB_CIPHER_CNTR_BITLEN)
            then is_job_invalid_light_sw1_IMB_CIPHER_CBC j cipher_mode
                   hash_alg cipher_direction key_len_in_bytes
            else if N.eqb cipher_mode iMB_CIPHER_DOCSIS_SEC_BPI
                 then is_job_invalid_light_sw1_IMB_CIPHER_DOCSIS_SEC_BPI j
                        cipher_mode hash_alg cipher_direction key_len_in_bytes
                 else if (||) (N.eqb cipher_mode iMB_CIPHER_GCM)
                           (N.eqb cipher_mode iMB_CIPHER_GCM_SGL)
                      then is_job_invalid_light_sw1_IMB_CIPHER_GCM j
                             cipher_mode hash_alg cipher_direction
                             key_len_in_bytes
                      else if N.eqb cipher_mode iMB_CIPHER_SM4_GCM
                           then is_job_invalid_light_sw1_IMB_CIPHER_SM4_GCM j
                                  cipher_mode hash_alg cipher_direction
                                  key_len_in_bytes
                           else if (||) (N.eqb cipher_mode iMB_CIPHER_DES)
                                     (N.eqb cipher_mode iMB_CIPHER_DOCSIS_DES)
                                then is_job_invalid_light_sw1_IMB_CIPHER_DES
                                       j cipher_mode hash_alg
                                       cipher_direction key_len_in_bytes
                                else if N.eqb cipher_mode iMB_CIPHER_CCM
                                     then is_job_invalid_light_sw1_IMB_CIPHER_CCM
                                            j cipher_mode hash_alg
                                            cipher_direction key_len_in_bytes
                                     else if N.eqb cipher_mode iMB_CIPHER_DES3
                                          then is_job_invalid_light_sw1_IMB_CIPHER_DES3
                                                 j cipher_mode hash_alg
                                                 cipher_direction
                                                 key_len_in_bytes
                                          else if N.eqb cipher_mode
                                                    iMB_CIPHER_PON_AES_CNTR
                                               then is_job_invalid_light_sw1_IMB_CIPHER_PON_AES_CNTR
                                                      j cipher_mode hash_alg
                                                      cipher_direction
                                                      key_len_in_bytes
                                               else if N.eqb cipher_mode
                                                         iMB_CIPHER_ZUC_EEA3
                                                    then is_job_invalid_light_sw1_IMB_CIPHER_ZUC_EEA3
                                                           j cipher_mode
                                                           hash_alg
                                                           cipher_direction
                                                           key_len_in_bytes
                                                    else if (||)
                                                              ((||)
                                                                ((||)
                                                                  ((||)
                                                                    (N.eqb
                                                                    cipher_mode
                                                                    iMB_CIPHER_SNOW3G_UEA2_BITLEN)
                                                                    (N.eqb
                                                                    cipher_mode
                                                                    iMB_CIPHER_KASUMI_UEA1_BITLEN))
                                                                  (N.eqb
                                                                    cipher_mode
                                                                    iMB_CIPHER_SM4_CBC))
                                                                (N.eqb
                                                                  cipher_mode
                                                                  iMB_CIPHER_SM4_ECB))
                                                              (N.eqb
                                                                cipher_mode
                                                                iMB_CIPHER_SM4_CNTR)
                                                         then is_job_invalid_light_sw1_IMB_CIPHER_SNOW3G_UEA2_BITLEN
                                                                j cipher_mode
                                                                hash_alg
                                                                cipher_direction
                                                                key_len_in_bytes
                                                         else if N.eqb
                                                                   cipher_mode
                                                                   iMB_CIPHER_CHACHA20
                                                              then is_job_invalid_light_sw1_IMB_CIPHER_CHACHA20
                                                                    j
                                                                    cipher_mode
                                                                    hash_alg
                                                                    cipher_direction
                                                                    key_len_in_bytes
                                                              else if 
                                                                    (||)
                                                                    (N.eqb
                                                                    cipher_mode
                                                                    iMB_CIPHER_CHACHA20_POLY1305)
                                                                    (N.eqb
                                                                    cipher_mode
                                                                    iMB_CIPHER_CHACHA20_POLY1305_SGL)
                                                                   then 
                                                                    is_job_invalid_light_sw1_IMB_CIPHER_CHACHA20_POLY1305
                                                                    j
                                                                    cipher_mode
                                                                    hash_alg
                                                                    cipher_direction
                                                                    key_len_in_bytes
                                                                   else 
                                                                    if 
                                                                    (||)
                                                                    (N.eqb
                                                                    cipher_mode
                                                                    iMB_CIPHER_SNOW_V_AEAD)
                                                                    (N.eqb
                                                                    cipher_mode
                                                                    iMB_CIPHER_SNOW_V)
                                                                    then 
                                                                    is_job_invalid_light_sw1_IMB_CIPHER_SNOW_V_AEAD
                                                                    j
                                                                    cipher_mode
                                                                    hash_alg
                                                                    cipher_direction
                                                                    key_len_in_bytes
                                                                    else 
                                                                    if 
                                                                    N.eqb
                                                                    cipher_mode
                                                                    iMB_CIPHER_CFB
                                                                    then 
                                                                    is_job_invalid_light_sw1_IMB_CIPHER_CFB
                                                                    j
                                                                    cipher_mode
                                                                    hash_alg
                                                                    cipher_direction
                                                                    key_len_in_bytes
                                                                    else 
                                                                    is_job_invalid_light_sw1_default
                                                                    j
                                                                    cipher_mode
                                                                    hash_alg
                                                                    cipher_direction
                                                                    key_len_in_bytes

(** val is_job_invalid_light_sw2_IMB_AUTH_HMAC_SHA_1 :
    job_view -> n -> n -> n -> n -> n option **)

let is_job_invalid_light_sw2_IMB_AUTH_HMAC_SHA_1 _ _ _ _ _ =
  None

(** val is_job_invalid_light_sw2_IMB_AUTH_AES_GMAC :
    job_view -> n -> n -> n -> n -> n option **)

let is_job_invalid_light_sw2_IMB_AUTH_AES_GMAC _ cipher_mode _ _ _ =
  if negb (N.eqb cipher_mode iMB_CIPHER_GCM)
  then Some iMB_ERR_CIPH_MODE
  else None

(** val is_job_invalid_light_sw2_IMB_AUTH_GCM_SGL :
    job_view -> n -> n -> n -> n -> n option **)

let is_job_invalid_light_sw2_IMB_AUTH_GCM_SGL _ cipher_mode _ _ _ =
  if negb (N.eqb cipher_mode iMB_CIPHER_GCM_SGL)
  then Some iMB_ERR_CIPH_MODE
  else None

(** val is_job_invalid_light_sw2_IMB_AUTH_SM4_GCM :
    job_view -> n -> n -> n -> n -> n option **)

let is_job_invalid_light_sw2_IMB_AUTH_SM4_GCM _ cipher_mode _ _ _ =
  if negb (N.eqb cipher_mode iMB_CIPHER_SM4_GCM)
  then Some iMB_ERR_CIPH_MODE
  else None

(** val is_job_invalid_light_sw2_IMB_AUTH_AES_CCM :
    job_view -> n -> n -> n -> n -> n option **)

let is_job_invalid_light_sw2_IMB_AUTH_AES_CCM _ cipher_mode _ _ _ =
  if negb (N.eqb cipher_mode iMB_CIPHER_CCM)
  then Some iMB_ERR_CIPH_MODE
  else None

(** val is_job_invalid_light_sw2_IMB_AUTH_PON_CRC_BIP :
    job_view -> n -> n -> n -> n -> n option **)

let is_job_invalid_light_sw2_IMB_AUTH_PON_CRC_BIP _ cipher_mode _ _ _ =
  if negb (N.eqb cipher_mode iMB_CIPHER_PON_AES_CNTR)
  then Some iMB_ERR_CIPH_MODE
  else None

(** val is_job_invalid_light_sw2_IMB_AUTH_DOCSIS_CRC32 :
    job_view -> n -> n -> n -> n -> n option **)

let is_job_invalid_light_sw2_IMB_AUTH_DOCSIS_CRC32 _ cipher_mode _ _ _ =
  if negb (N.eqb cipher_mode iMB_CIPHER_DOCSIS_SEC_BPI)
  then Some iMB_ERR_CIPH_MODE
  else None

(** val is_job_invalid_light_sw2_IMB_AUTH_CHACHA20_POLY1305 :
    job_view -> n -> n -> n -> n -> n option **)

let is_job_invalid_light_sw2_IMB_AUTH_CHACHA20_POLY1305 _ cipher_mode _ _ _ =
  if negb (N.eqb cipher_mode iMB_CIPHER_CHACHA20_POLY1305)
  then Some iMB_ERR_CIPH_MODE
  else None

(** val is_job_invalid_light_sw2_IMB_AUTH_CHACHA20_POLY1305_SGL :
    job_view -> n -> n -> n -> n -> n option **)

let is_job_invalid_light_sw2_IMB_AUTH_CHACHA20_POLY1305_SGL _ cipher_mode _ _ _ =
  if negb (N.eqb cipher_mode iMB_CIPHER_CHACHA20_POLY1305_SGL)
  then Some iMB_ERR_CIPH_MODE
  else None

(** val is_job_invalid_light_sw2_IMB_AUTH_SNOW_V_AEAD :
    job_view -> n -> n -> n -> n -> n option **)

let is_job_invalid_light_sw2_IMB_AUTH_SNOW_V_AEAD _ cipher_mode _ _ _ =
  if negb (N.eqb cipher_mode iMB_CIPHER_SNOW_V_AEAD)
  then Some iMB_ERR_CIPH_MODE
  else None

(** val is_job_invalid_light_sw2_default :
    job_view -> n -> n -> n -> n -> n option **)

let is_job_invalid_light_sw2_default _ _ _ _ _ =
  Some iMB_ERR_HASH_ALGO

(** val is_job_invalid_light_sw2 :
    job_view -> n -> n -> n -> n -> n option **)

let is_job_invalid_light_sw2 j cipher_mode hash_alg cipher_direction key_len_in_bytes =
  if (||)
       ((||)
         ((||)
           ((||)
             ((||)
               ((||)
                 ((||)
                   ((||)
                     ((||)
                       ((||)
                         ((||)
                           ((||)
                             ((||)
                               ((||)
                                 ((||)
                                   ((||)
                                     ((||)
                                       ((||)
                                         ((||)
                                           ((||)
                                             ((||)
                                               ((||)
                                                 ((||)
                                                   ((||)
                                                     ((||)
                                                       ((||)
                                                         ((||)
                                                           ((||)
                                                             ((||)
                                                               ((||)
                                                                 ((||)
                                                                   ((||)
                                                                    ((||)
                                                                    ((||)
                                                                    ((||)
                                                                    ((||)
                                                                    ((||)
                                                                    ((||)
                                                                    ((||)
                                                                    (N.eqb
                                                                    hash_alg
                                                                    iMB_AUTH_HMAC_SHA_1)
                                                                    (N.eqb
                                                                    hash_alg
                                                                    iMB_AUTH_MD5))
                                                                    (N.eqb
                                                                    hash_alg
                                                                    iMB_AUTH_HMAC_SHA_224))
                                                                    (N.eqb
                                                                    hash_alg
                                                                    iMB_AUTH_HMAC_SHA_256))
                                                                    (N.eqb
                                                                    hash_alg
                                                                    iMB_AUTH_HMAC_SHA_384))
                                                                    (N.eqb
                                                                    hash_alg
                                                                    iMB_AUTH_HMAC_SHA_512))
                                                                    (N.eqb
                                                                    hash_alg
                                                                    iMB_AUTH_HMAC_SM3))
                                                                    (N.eqb
                                                                    hash_alg
                                                                    iMB_AUTH_AES_XCBC))
                                                                    (N.eqb
                                                                    hash_alg
                                                                    iMB_AUTH_NULL))
                                                                   (N.eqb
                                                                    hash_alg
                                                                    iMB_AUTH_CRC32_ETHERNET_FCS))
                                                                 (N.eqb
                                                                   hash_alg
                                                                   iMB_AUTH_CRC32_SCTP))
                                                               (N.eqb
                                                                 hash_alg
                                                                 iMB_AUTH_CRC32_WIMAX_OFDMA_DATA))
                                                             (N.eqb hash_alg
                                                               iMB_AUTH_CRC24_LTE_A))
                                                           (N.eqb hash_alg
                                                             iMB_AUTH_CRC24_LTE_B))
                                                         (N.eqb hash_alg
                                                           iMB_AUTH_CRC16_X25))
                                                       (N.eqb hash_alg
                                                         iMB_AUTH_CRC16_FP_DATA))
                                                     (N.eqb hash_alg
                                                       iMB_AUTH_CRC11_FP_HEADER))
                                                   (N.eqb hash_alg
                                                     iMB_AUTH_CRC10_IUUP_DATA))
                                                 (N.eqb hash_alg
                                                   iMB_AUTH_CRC8_WIMAX_OFDMA_HCS))
                                               (N.eqb hash_alg
                                                 iMB_AUTH_CRC7_FP_HEADER))
                                             (N.eqb hash_alg
                                               iMB_AUTH_CRC6_IUUP_HEADER))
                                           (N.eqb hash_alg iMB_AUTH_GHASH))
                                         (N.eqb hash_alg iMB_AUTH_CUSTOM))
                                       (N.eqb hash_alg iMB_AUTH_AES_CMAC))
                                     (N.eqb hash_alg iMB_AUTH_AES_CMAC_BITLEN))
                                   (N.eqb hash_alg iMB_AUTH_AES_CMAC_256))
                                 (N.eqb hash_alg iMB_AUTH_SHA_1))
                               (N.eqb hash_alg iMB_AUTH_SHA_224))
                             (N.eqb hash_alg iMB_AUTH_SHA_256))
                           (N.eqb hash_alg iMB_AUTH_SHA_384))
                         (N.eqb hash_alg iMB_AUTH_SHA_512))
                       (N.eqb hash_alg iMB_AUTH_ZUC_EIA3_BITLEN))
                     (N.eqb hash_alg iMB_AUTH_ZUC256_EIA3_BITLEN))
                   (N.eqb hash_alg iMB_AUTH_SNOW3G_UIA2_BITLEN))
                 (N.eqb hash_alg iMB_AUTH_KASUMI_UIA1))
               (N.eqb hash_alg iMB_AUTH_POLY1305))
             (N.eqb hash_alg iMB_AUTH_SM3))
           (N.eqb hash_alg iMB_AUTH_AES_GMAC_128))
         (N.eqb hash_alg iMB_AUTH_AES_GMAC_192))
       (N.eqb hash_alg iMB_AUTH_AES_GMAC_256)
  then is_job_invalid_light_sw2_IMB_AUTH_HMAC_SHA_1 j cipher_mode hash_alg
         cipher_direction key_len_in_bytes
  else if N.eqb hash_alg iMB_AUTH_AES_GMAC
       then is_job_invalid_light_sw2_IMB_AUTH_AES_GMAC j cipher_mode hash_alg
              cipher_direction key_len_in_bytes
       else if N.eqb hash_alg iMB_AUTH_GCM_SGL
            then is_job_invalid_light_sw2_IMB_AUTH_GCM_SGL j cipher_mode
                   hash_alg cipher_direction key_len_in_bytes
            else if N.eqb hash_alg iMB_AUTH_SM4_GCM
                 then is_job_invalid_light_sw2_IMB_AUTH_SM4_GCM j cipher_mode
                        hash_alg cipher_direction key_len_in_bytes
                 else if N.eqb hash_alg iMB_AUTH_AES_CCM
                      then is_job_invalid_light_sw2_IMB_AUTH_AES_CCM j
                             cipher_mode hash_alg cipher_direction
                             key_len_in_bytes
                      else if N.eqb hash_alg iMB_AUTH_PON_CRC_BIP
                           then is_job_invalid_light_sw2_IMB_AUTH_PON_CRC_BIP
                                  j cipher_mode hash_alg cipher_direction
                                  key_len_in_bytes
                           else if N.eqb hash_alg iMB_AUTH_DOCSIS_CRC32
                                then is_job_invalid_light_sw2_IMB_AUTH_DOCSIS_CRC32
                                       j cipher_mode hash_alg
                                       cipher_direction key_len_in_bytes
                                else if N.eqb hash_alg
                                          iMB_AUTH_CHACHA20_POLY1305
                                     then is_job_invalid_light_sw2_IMB_AUTH_CHACHA20_POLY1305
                                            j cipher_mode hash_alg
                                            cipher_direction key_len_in_bytes
                                     else if N.eqb hash_alg
                                               iMB_AUTH_CHACHA20_POLY1305_SGL
                                          then is_job_invalid_light_sw2_IMB_AUTH_CHACHA20_POLY1305_SGL
                                                 j cipher_mode hash_alg
                                                 cipher_direction
                                                 key_len_in_bytes
                                          else if N.eqb hash_alg
                                                    iMB_AUTH_SNOW_V_AEAD
                                               then is_job_invalid_light_sw2_IMB_AUTH_SNOW_V_AEAD
                                                      j cipher_mode hash_alg
                                                      cipher_direction
                                                      key_len_in_bytes
                                               else is_job_invalid_light_sw2_default
                                                      j cipher_mode hash_alg
                                                      cipher_direction
                                                      key_len_in_bytes

(** val is_job_invalid_light_fn : job_view -> n -> n -> n -> n -> n option **)

let is_job_invalid_light_fn j cipher_mode hash_alg cipher_direction key_len_in_bytes =
  oseq
    (if (&&)
          ((&&) (negb (N.eqb cipher_direction iMB_DIR_DECRYPT))
            (negb (N.eqb cipher_direction iMB_DIR_ENCRYPT)))
          (negb (N.eqb cipher_mode iMB_CIPHER_NULL))
     then Some iMB_ERR_JOB_CIPH_DIR
     else None)
    (oseq
      (is_job_invalid_light_sw1 j cipher_mode hash_alg cipher_direction
        key_len_in_bytes)
      (oseq
        (is_job_invalid_light_sw2 j cipher_mode hash_alg cipher_direction
          key_len_in_bytes) None))

(** val is_job_invalid_tab_auth_tag_len_fips : n list **)

let is_job_invalid_tab_auth_tag_len_fips =
  N0 :: ((Npos (XO (XO (XI (XO XH))))) :: ((Npos (XO (XO (XI (XI
    XH))))) :: ((Npos (XO (XO (XO (XO (XO XH)))))) :: ((Npos (XO (XO (XO (XO
    (XI XH)))))) :: ((Npos (XO (XO (XO (XO (XO (XO XH))))))) :: ((Npos (XO
    (XO (XI XH)))) :: ((Npos (XO (XO (XO (XO XH))))) :: (N0 :: ((Npos (XO (XO
    (XO (XO XH))))) :: (N0 :: (N0 :: ((Npos (XO (XO (XO (XO XH))))) :: ((Npos
    (XO (XO (XI (XO XH))))) :: ((Npos (XO (XO (XI (XI XH))))) :: ((Npos (XO
    (XO (XO (XO (XO XH)))))) :: ((Npos (XO (XO (XO (XO (XI XH)))))) :: ((Npos
    (XO (XO (XO (XO (XO (XO XH))))))) :: ((Npos (XO (XO XH))) :: ((Npos (XO
    (XO (XO XH)))) :: ((Npos (XO (XO XH))) :: ((Npos (XO (XO XH))) :: ((Npos
    (XO (XO XH))) :: ((Npos (XO (XO XH))) :: ((Npos (XO (XO (XO (XO
    XH))))) :: ((Npos (XO (XO (XO (XO XH))))) :: ((Npos (XO (XO (XO (XO
    XH))))) :: ((Npos (XO (XO (XO (XO XH))))) :: ((Npos (XO (XO (XO (XO
    XH))))) :: ((Npos (XO (XO (XO (XO XH))))) :: ((Npos (XO (XO (XO (XO
    XH))))) :: ((Npos (XO (XO XH))) :: ((Npos (XO (XO (XO (XO
    XH))))) :: ((Npos (XO (XO (XO (XO XH))))) :: ((Npos (XO (XO
    XH))) :: ((Npos (XO (XO XH))) :: ((Npos (XO (XO XH))) :: ((Npos (XO (XO
    XH))) :: ((Npos (XO (XO XH))) :: ((Npos (XO (XO XH))) :: ((Npos (XO (XO
    XH))) :: ((Npos (XO (XO XH))) :: ((Npos (XO (XO XH))) :: ((Npos (XO (XO
    XH))) :: ((Npos (XO (XO XH))) :: ((Npos (XO (XO XH))) :: ((Npos (XO (XO
    (XO (XO XH))))) :: []))))))))))))))))))))))))))))))))))))))))))))))

(** val is_job_invalid_tab_auth_tag_len_ipsec : n list **)

let is_job_invalid_tab_auth_tag_len_ipsec =
  N0 :: ((Npos (XO (XO (XI XH)))) :: ((Npos (XO (XI (XI XH)))) :: ((Npos (XO
    (XO (XO (XO XH))))) :: ((Npos (XO (XO (XO (XI XH))))) :: ((Npos (XO (XO
    (XO (XO (XO XH)))))) :: ((Npos (XO (XO (XI XH)))) :: ((Npos (XO (XO (XI
    XH)))) :: (N0 :: ((Npos (XO (XO (XO (XO XH))))) :: (N0 :: (N0 :: ((Npos
    (XO (XO (XO (XO XH))))) :: ((Npos (XO (XO (XI (XO XH))))) :: ((Npos (XO
    (XO (XI (XI XH))))) :: ((Npos (XO (XO (XO (XO (XO XH)))))) :: ((Npos (XO
    (XO (XO (XO (XI XH)))))) :: ((Npos (XO (XO (XO (XO (XO (XO
    XH))))))) :: ((Npos (XO (XO XH))) :: ((Npos (XO (XO (XO XH)))) :: ((Npos
    (XO (XO XH))) :: ((Npos (XO (XO XH))) :: ((Npos (XO (XO XH))) :: ((Npos
    (XO (XO XH))) :: ((Npos (XO (XO (XO (XO XH))))) :: ((Npos (XO (XO (XO (XO
    XH))))) :: ((Npos (XO (XO (XO (XO XH))))) :: ((Npos (XO (XO (XO (XO
    XH))))) :: ((Npos (XO (XO (XO (XO XH))))) :: ((Npos (XO (XO (XO (XO
    XH))))) :: ((Npos (XO (XO (XO (XO XH))))) :: ((Npos (XO (XO
    XH))) :: ((Npos (XO (XO (XO (XO XH))))) :: ((Npos (XO (XO (XO (XO
    XH))))) :: ((Npos (XO (XO XH))) :: ((Npos (XO (XO XH))) :: ((Npos (XO (XO
    XH))) :: ((Npos (XO (XO XH))) :: ((Npos (XO (XO XH))) :: ((Npos (XO (XO
    XH))) :: ((Npos (XO (XO XH))) :: ((Npos (XO (XO XH))) :: ((Npos (XO (XO
    XH))) :: ((Npos (XO (XO XH))) :: ((Npos (XO (XO XH))) :: ((Npos (XO (XO
    XH))) :: ((Npos (XO (XO (XO (XO
    XH))))) :: []))))))))))))))))))))))))))))))))))))))))))))))

(** val is_job_invalid_for1 :
    job_view -> n -> n -> n -> n -> sgl_seg list -> n -> n -> n option * n **)

let rec is_job_invalid_for1 j cipher_mode hash_alg cipher_direction key_len_in_bytes segs i total_sgl_len =
  if N.ltb i j.jv_dst
  then (match segs with
        | [] -> ((Some eRR_MODEL_VIEW_EXHAUSTED), total_sgl_len)
        | s :: segs' ->
          let seg = add64 j.jv_src (mul64 i (Npos (XO (XO (XO (XI XH)))))) in
          if N.eqb seg N0
          then ((Some iMB_ERR_JOB_NULL_SRC), total_sgl_len)
          else if (&&) (negb (N.eqb s.seg_len N0)) (N.eqb s.seg_in N0)
               then ((Some iMB_ERR_JOB_NULL_SRC), total_sgl_len)
               else if (&&) (negb (N.eqb s.seg_len N0)) (N.eqb s.seg_out N0)
                    then ((Some iMB_ERR_JOB_NULL_DST), total_sgl_len)
                    else let total_sgl_len0 = add64 total_sgl_len s.seg_len in
                         is_job_invalid_for1 j cipher_mode hash_alg
                           cipher_direction key_len_in_bytes segs'
                           (add64 i (Npos XH)) total_sgl_len0)
  else (None, total_sgl_len)

(** val is_job_invalid_for2 :
    job_view -> n -> n -> n -> n -> sgl_seg list -> n -> n -> n option * n **)

let rec is_job_invalid_for2 j cipher_mode hash_alg cipher_direction key_len_in_bytes segs i total_sgl_len =
  if N.ltb i j.jv_dst
  then (match segs with
        | [] -> ((Some eRR_MODEL_VIEW_EXHAUSTED), total_sgl_len)
        | s :: segs' ->
          let seg = add64 j.jv_src (mul64 i (Npos (XO (XO (XO (XI XH)))))) in
          if N.eqb seg N0
          then ((Some iMB_ERR_JOB_NULL_SRC), total_sgl_len)
          else if (&&) (negb (N.eqb s.seg_len N0)) (N.eqb s.seg_in N0)
               then ((Some iMB_ERR_JOB_NULL_SRC), total_sgl_len)
               else if (&&) (negb (N.eqb s.seg_len N0)) (N.eqb s.seg_out N0)
                    then ((Some iMB_ERR_JOB_NULL_DST), total_sgl_len)
                    else let total_sgl_len0 = add64 total_sgl_len s.seg_len in
                         is_job_invalid_for2 j cipher_mode hash_alg
                           cipher_direction key_len_in_bytes segs'
                           (add64 i (Npos XH)) total_sgl_len0)
  else (None, total_sgl_len)

(** val is_job_invalid_sw1_IMB_CIPHER_CBC :
    job_view -> n -> n -> n -> n -> n option **)

let is_job_invalid_sw1_IMB_CIPHER_CBC j cipher_mode _ cipher_direction key_len_in_bytes =
  if N.eqb j.jv_src N0
  then Some iMB_ERR_JOB_NULL_SRC
  else if N.eqb j.jv_dst N0
       then Some iMB_ERR_JOB_NULL_DST
       else if N.eqb j.jv_iv N0
            then Some iMB_ERR_JOB_NULL_IV
            else if (&&) (N.eqb cipher_direction iMB_DIR_ENCRYPT)
                      (N.eqb j.jv_enc_keys N0)
                 then Some iMB_ERR_JOB_NULL_KEY
                 else if (&&) (N.eqb cipher_direction iMB_DIR_DECRYPT)
                           (N.eqb j.jv_dec_keys N0)
                      then Some iMB_ERR_JOB_NULL_KEY
                      else if (&&)
                                ((&&)
                                  (negb
                                    (N.eqb key_len_in_bytes (Npos (XO (XO (XO
                                      (XO XH)))))))
                                  (negb
                                    (N.eqb key_len_in_bytes (Npos (XO (XO (XO
                                      (XI XH))))))))
                                (negb
                                  (N.eqb key_len_in_bytes (Npos (XO (XO (XO
                                    (XO (XO XH))))))))
                           then Some iMB_ERR_JOB_KEY_LEN
                           else if N.eqb j.jv_msg_len_to_cipher N0
                                then Some iMB_ERR_JOB_CIPH_LEN
                                else if negb
                                          (N.eqb
                                            (N.coq_land
                                              j.jv_msg_len_to_cipher (Npos
                                              (XI (XI (XI XH))))) N0)
                                     then Some iMB_ERR_JOB_CIPH_LEN
                                     else oseq
                                            (if N.eqb cipher_mode
                                                  iMB_CIPHER_CBCS_1_9
                                             then if negb
                                                       (N.eqb
                                                         key_len_in_bytes
                                                         (Npos (XO (XO (XO
                                                         (XO XH))))))
                                                  then Some
                                                         iMB_ERR_JOB_KEY_LEN
                                                  else if N.ltb (Npos (XI (XI
                                                            (XI (XI (XI (XI
                                                            (XI (XI (XI (XI
                                                            (XI (XI (XI (XI
                                                            (XI (XI (XI (XI
                                                            (XI (XI (XI (XI
                                                            (XI (XI (XI (XI
                                                            (XI (XI (XI (XI
                                                            (XI (XI (XI (XI
                                                            (XI (XI (XI (XI
                                                            (XI (XI (XI (XI
                                                            (XI (XI (XI (XI
                                                            (XI (XI (XI (XI
                                                            (XI (XI (XI (XI
                                                            (XI (XI (XI (XI
                                                            (XI
                                                            XH))))))))))))))))))))))))))))))))))))))))))))))))))))))))))))
                                                            j.jv_msg_len_to_cipher
                                                       then Some
                                                              iMB_ERR_JOB_CIPH_LEN
                                                       else if N.eqb
                                                                 j.jv_next_iv
                                                                 N0
                                                            then Some
                                                                   iMB_ERR_JOB_NULL_NEXT_IV
                                                            else None
                                             else if (&&)
                                                       (N.eqb
                                                         cipher_direction
                                                         iMB_DIR_ENCRYPT)
                                                       (N.ltb (Npos (XO (XI
                                                         (XI (XI (XI (XI (XI
                                                         (XI (XI (XI (XI (XI
                                                         (XI (XI (XI
                                                         XH))))))))))))))))
                                                         j.jv_msg_len_to_cipher)
                                                  then Some
                                                         iMB_ERR_JOB_CIPH_LEN
                                                  else None)
                                            (if negb
                                                  (N.eqb j.jv_iv_len_in_bytes
                                                    (Npos (XO (XO (XO (XO
                                                    XH))))))
                                             then Some iMB_ERR_JOB_IV_LEN
                                             else None)

(** val is_job_invalid_sw1_IMB_CIPHER_ECB :
    job_view -> n -> n -> n -> n -> n option **)

let is_job_invalid_sw1_IMB_CIPHER_ECB j _ _ cipher_direction key_len_in_bytes =
  if N.eqb j.jv_src N0
  then Some iMB_ERR_JOB_NULL_SRC
  else if N.eqb j.jv_dst N0
       then Some iMB_ERR_JOB_NULL_DST
       else if (&&) (N.eqb cipher_direction iMB_DIR_ENCRYPT)
                 (N.eqb j.jv_enc_keys N0)
            then Some iMB_ERR_JOB_NULL_KEY
            else if (&&) (N.eqb cipher_direction iMB_DIR_DECRYPT)
                      (N.eqb j.jv_dec_keys N0)
                 then Some iMB_ERR_JOB_NULL_KEY
                 else if (&&)
                           ((&&)
                             (negb
                               (N.eqb key_len_in_bytes (Npos (XO (XO (XO (XO
                                 XH)))))))
                             (negb
                               (N.eqb key_len_in_bytes (Npos (XO (XO (XO (XI
                                 XH))))))))
                           (negb
                             (N.eqb key_len_in_bytes (Npos (XO (XO (XO (XO
                               (XO XH))))))))
                      then Some iMB_ERR_JOB_KEY_LEN
                      else if (||) (N.eqb j.jv_msg_len_to_cipher N0)
                                (N.ltb (Npos (XO (XI (XI (XI (XI (XI (XI (XI
                                  (XI (XI (XI (XI (XI (XI (XI
                                  XH)))))))))))))))) j.jv_msg_len_to_cipher)
                           then Some iMB_ERR_JOB_CIPH_LEN
                           else if negb
                                     (N.eqb
                                       (N.coq_land j.jv_msg_len_to_cipher
                                         (Npos (XI (XI (XI XH))))) N0)
                                then Some iMB_ERR_JOB_CIPH_LEN
                                else None

(** val is_job_invalid_sw1_IMB_CIPHER_CNTR :
    job_view -> n -> n -> n -> n -> n option **)

let is_job_invalid_sw1_IMB_CIPHER_CNTR j cipher_mode _ _ key_len_in_bytes =
  if N.eqb j.jv_src N0
  then Some iMB_ERR_JOB_NULL_SRC
  else if N.eqb j.jv_dst N0
       then Some iMB_ERR_JOB_NULL_DST
       else if N.eqb j.jv_iv N0
            then Some iMB_ERR_JOB_NULL_IV
            else if N.eqb j.jv_enc_keys N0
                 then Some iMB_ERR_JOB_NULL_KEY
                 else if (&&)
                           ((&&)
                             (negb
                               (N.eqb key_len_in_bytes (Npos (XO (XO (XO (XO
                                 XH)))))))
                             (negb
                               (N.eqb key_len_in_bytes (Npos (XO (XO (XO (XI
                                 XH))))))))
                           (negb
                             (N.eqb key_len_in_bytes (Npos (XO (XO (XO (XO
                               (XO XH))))))))
                      then Some iMB_ERR_JOB_KEY_LEN
                      else if (||)
                                ((&&)
                                  ((&&) (N.eqb cipher_mode iMB_CIPHER_CNTR)
                                    (negb
                                      (N.eqb j.jv_iv_len_in_bytes (Npos (XO
                                        (XO (XO (XO XH))))))))
                                  (negb
                                    (N.eqb j.jv_iv_len_in_bytes (Npos (XO (XO
                                      (XI XH)))))))
                                ((&&)
                                  (N.eqb cipher_mode iMB_CIPHER_CNTR_BITLEN)
                                  (negb
                                    (N.eqb j.jv_iv_len_in_bytes (Npos (XO (XO
                                      (XO (XO XH))))))))
                           then Some iMB_ERR_JOB_IV_LEN
                           else if N.eqb j.jv_msg_len_to_cipher N0
                                then Some iMB_ERR_JOB_CIPH_LEN
                                else None

(** val is_job_invalid_sw1_IMB_CIPHER_NULL :
    job_view -> n -> n -> n -> n -> n option **)

let is_job_invalid_sw1_IMB_CIPHER_NULL _ _ _ _ _ =
  None

(** val is_job_invalid_sw1_IMB_CIPHER_DOCSIS_SEC_BPI :
    job_view -> n -> n -> n -> n -> n option **)

let is_job_invalid_sw1_IMB_CIPHER_DOCSIS_SEC_BPI j _ _ cipher_direction key_len_in_bytes =
  if N.eqb j.jv_src N0
  then Some iMB_ERR_JOB_NULL_SRC
  else if N.eqb j.jv_dst N0
       then Some iMB_ERR_JOB_NULL_DST
       else if N.eqb j.jv_iv N0
            then Some iMB_ERR_JOB_NULL_IV
            else if N.eqb j.jv_enc_keys N0
                 then Some iMB_ERR_JOB_NULL_KEY
                 else if (&&) (N.eqb cipher_direction iMB_DIR_DECRYPT)
                           (N.eqb j.jv_dec_keys N0)
                      then Some iMB_ERR_JOB_NULL_KEY
                      else if (&&)
                                (negb
                                  (N.eqb key_len_in_bytes (Npos (XO (XO (XO
                                    (XO XH)))))))
                                (negb
                                  (N.eqb key_len_in_bytes (Npos (XO (XO (XO
                                    (XO (XO XH))))))))
                           then Some iMB_ERR_JOB_KEY_LEN
                           else if negb
                                     (N.eqb j.jv_iv_len_in_bytes (Npos (XO
                                       (XO (XO (XO XH))))))
                                then Some iMB_ERR_JOB_IV_LEN
                                else if N.ltb (Npos (XO (XI (XI (XI (XI (XI
                                          (XI (XI (XI (XI (XI (XI (XI (XI (XI
                                          XH))))))))))))))))
                                          j.jv_msg_len_to_cipher
                                     then Some iMB_ERR_JOB_CIPH_LEN
                                     else None

(** val is_job_invalid_sw1_IMB_CIPHER_GCM :
    job_view -> n -> n -> n -> n -> n option **)

let is_job_invalid_sw1_IMB_CIPHER_GCM j _ hash_alg cipher_direction key_len_in_bytes =
  if N.ltb (Npos (XI (XI (XI (XI (XI (XO (XI (XI (XI (XI (XI (XI (XI (XI (XI
       (XI (XI (XI (XI (XI (XI (XI (XI (XI (XI (XI (XI (XI (XI (XI (XI (XI
       (XI (XI (XI XH))))))))))))))))))))))))))))))))))))
       j.jv_msg_len_to_cipher
  then Some iMB_ERR_JOB_CIPH_LEN
  else if (&&) (negb (N.eqb j.jv_msg_len_to_cipher N0)) (N.eqb j.jv_src N0)
       then Some iMB_ERR_JOB_NULL_SRC
       else if (&&) (negb (N.eqb j.jv_msg_len_to_cipher N0))
                 (N.eqb j.jv_dst N0)
            then Some iMB_ERR_JOB_NULL_DST
            else if N.eqb j.jv_iv N0
                 then Some iMB_ERR_JOB_NULL_IV
                 else if (&&) (N.eqb cipher_direction iMB_DIR_ENCRYPT)
                           (N.eqb j.jv_enc_keys N0)
                      then Some iMB_ERR_JOB_NULL_KEY
                      else if (&&) (N.eqb cipher_direction iMB_DIR_DECRYPT)
                                (N.eqb j.jv_dec_keys N0)
                           then Some iMB_ERR_JOB_NULL_KEY
                           else if (&&)
                                     ((&&)
                                       (negb
                                         (N.eqb key_len_in_bytes (Npos (XO
                                           (XO (XO (XO XH)))))))
                                       (negb
                                         (N.eqb key_len_in_bytes (Npos (XO
                                           (XO (XO (XI XH))))))))
                                     (negb
                                       (N.eqb key_len_in_bytes (Npos (XO (XO
                                         (XO (XO (XO XH))))))))
                                then Some iMB_ERR_JOB_KEY_LEN
                                else if N.eqb j.jv_iv_len_in_bytes N0
                                     then Some iMB_ERR_JOB_IV_LEN
                                     else if negb
                                               (N.eqb hash_alg
                                                 iMB_AUTH_AES_GMAC)
                                          then Some iMB_ERR_HASH_ALGO
                                          else None

(** val is_job_invalid_sw1_IMB_CIPHER_GCM_SGL :
    job_view -> n -> n -> n -> n -> n option **)

let is_job_invalid_sw1_IMB_CIPHER_GCM_SGL j cipher_mode hash_alg cipher_direction key_len_in_bytes =
  if negb (N.eqb hash_alg iMB_AUTH_GCM_SGL)
  then Some iMB_ERR_HASH_ALGO
  else if (&&) (N.eqb cipher_direction iMB_DIR_ENCRYPT)
            (N.eqb j.jv_enc_keys N0)
       then Some iMB_ERR_JOB_NULL_KEY
       else if (&&) (N.eqb cipher_direction iMB_DIR_DECRYPT)
                 (N.eqb j.jv_dec_keys N0)
            then Some iMB_ERR_JOB_NULL_KEY
            else if (&&)
                      ((&&)
                        (negb
                          (N.eqb key_len_in_bytes (Npos (XO (XO (XO (XO
                            XH)))))))
                        (negb
                          (N.eqb key_len_in_bytes (Npos (XO (XO (XO (XI
                            XH))))))))
                      (negb
                        (N.eqb key_len_in_bytes (Npos (XO (XO (XO (XO (XO
                          XH))))))))
                 then Some iMB_ERR_JOB_KEY_LEN
                 else if N.eqb j.jv_iv N0
                      then Some iMB_ERR_JOB_NULL_IV
                      else if N.eqb j.jv_iv_len_in_bytes N0
                           then Some iMB_ERR_JOB_IV_LEN
                           else oseq
                                  (if (||)
                                        ((||)
                                          (N.eqb j.jv_sgl_state iMB_SGL_INIT)
                                          (N.eqb j.jv_sgl_state
                                            iMB_SGL_UPDATE))
                                        (N.eqb j.jv_sgl_state
                                          iMB_SGL_COMPLETE)
                                   then if N.ltb (Npos (XI (XI (XI (XI (XI
                                             (XO (XI (XI (XI (XI (XI (XI (XI
                                             (XI (XI (XI (XI (XI (XI (XI (XI
                                             (XI (XI (XI (XI (XI (XI (XI (XI
                                             (XI (XI (XI (XI (XI (XI
                                             XH))))))))))))))))))))))))))))))))))))
                                             j.jv_msg_len_to_cipher
                                        then Some iMB_ERR_JOB_CIPH_LEN
                                        else if (&&)
                                                  (negb
                                                    (N.eqb
                                                      j.jv_msg_len_to_cipher
                                                      N0)) (N.eqb j.jv_src N0)
                                             then Some iMB_ERR_JOB_NULL_SRC
                                             else if (&&)
                                                       (negb
                                                         (N.eqb
                                                           j.jv_msg_len_to_cipher
                                                           N0))
                                                       (N.eqb j.jv_dst N0)
                                                  then Some
                                                         iMB_ERR_JOB_NULL_DST
                                                  else None
                                   else if N.eqb j.jv_sgl_state iMB_SGL_ALL
                                        then let total_sgl_len = N0 in
                                             let (loop_result, total_sgl_len0) =
                                               is_job_invalid_for2 j
                                                 cipher_mode hash_alg
                                                 cipher_direction
                                                 key_len_in_bytes
                                                 j.jv_sgl_segs N0
                                                 total_sgl_len
                                             in
                                             oseq loop_result
                                               (if N.ltb (Npos (XI (XI (XI
                                                     (XI (XI (XO (XI (XI (XI
                                                     (XI (XI (XI (XI (XI (XI
                                                     (XI (XI (XI (XI (XI (XI
                                                     (XI (XI (XI (XI (XI (XI
                                                     (XI (XI (XI (XI (XI (XI
                                                     (XI (XI
                                                     XH))))))))))))))))))))))))))))))))))))
                                                     total_sgl_len0
                                                then Some iMB_ERR_JOB_CIPH_LEN
                                                else None)
                                        else Some iMB_ERR_JOB_SGL_STATE) None

(** val is_job_invalid_sw1_IMB_CIPHER_SM4_GCM :
    job_view -> n -> n -> n -> n -> n option **)

let is_job_invalid_sw1_IMB_CIPHER_SM4_GCM j _ hash_alg cipher_direction key_len_in_bytes =
  if N.ltb (Npos (XI (XI (XI (XI (XI (XO (XI (XI (XI (XI (XI (XI (XI (XI (XI
       (XI (XI (XI (XI (XI (XI (XI (XI (XI (XI (XI (XI (XI (XI (XI (XI (XI
       (XI (XI (XI XH))))))))))))))))))))))))))))))))))))
       j.jv_msg_len_to_cipher
  then Some iMB_ERR_JOB_CIPH_LEN
  else if (&&) (negb (N.eqb j.jv_msg_len_to_cipher N0)) (N.eqb j.jv_src N0)
       then Some iMB_ERR_JOB_NULL_SRC
       else if (&&) (negb (N.eqb j.jv_msg_len_to_cipher N0))
                 (N.eqb j.jv_dst N0)
            then Some iMB_ERR_JOB_NULL_DST
            else if N.eqb j.jv_iv N0
                 then Some iMB_ERR_JOB_NULL_IV
                 else if negb
                           (N.eqb j.jv_iv_len_in_bytes (Npos (XO (XO (XI
                             XH)))))
                      then Some iMB_ERR_JOB_IV_LEN
                      else if (&&) (N.eqb cipher_direction iMB_DIR_ENCRYPT)
                                (N.eqb j.jv_enc_keys N0)
                           then Some iMB_ERR_JOB_NULL_KEY
                           else if (&&)
                                     (N.eqb cipher_direction iMB_DIR_DECRYPT)
                                     (N.eqb j.jv_dec_keys N0)
                                then Some iMB_ERR_JOB_NULL_KEY
                                else if negb
                                          (N.eqb key_len_in_bytes (Npos (XO
                                            (XO (XO (XO XH))))))
                                     then Some iMB_ERR_JOB_KEY_LEN
                                     else if negb
                                               (N.eqb hash_alg
                                                 iMB_AUTH_SM4_GCM)
                                          then Some iMB_ERR_HASH_ALGO
                                          else None

(** val is_job_invalid_sw1_IMB_CIPHER_CUSTOM :
    job_view -> n -> n -> n -> n -> n option **)

let is_job_invalid_sw1_IMB_CIPHER_CUSTOM j _ _ _ _ =
  if N.eqb j.jv_cipher_func N0 then Some (Npos (XO (XI (XI XH)))) else None

(** val is_job_invalid_sw1_IMB_CIPHER_DES :
    job_view -> n -> n -> n -> n -> n option **)

let is_job_invalid_sw1_IMB_CIPHER_DES j _ _ cipher_direction key_len_in_bytes =
  if N.eqb j.jv_src N0
  then Some iMB_ERR_JOB_NULL_SRC
  else if N.eqb j.jv_dst N0
       then Some iMB_ERR_JOB_NULL_DST
       else if N.eqb j.jv_iv N0
            then Some iMB_ERR_JOB_NULL_IV
            else if (&&) (N.eqb cipher_direction iMB_DIR_ENCRYPT)
                      (N.eqb j.jv_enc_keys N0)
                 then Some iMB_ERR_JOB_NULL_KEY
                 else if (&&) (N.eqb cipher_direction iMB_DIR_DECRYPT)
                           (N.eqb j.jv_dec_keys N0)
                      then Some iMB_ERR_JOB_NULL_KEY
                      else if negb
                                (N.eqb key_len_in_bytes (Npos (XO (XO (XO
                                  XH)))))
                           then Some iMB_ERR_JOB_KEY_LEN
                           else if (||) (N.eqb j.jv_msg_len_to_cipher N0)
                                     (N.ltb (Npos (XO (XI (XI (XI (XI (XI (XI
                                       (XI (XI (XI (XI (XI (XI (XI (XI
                                       XH))))))))))))))))
                                       j.jv_msg_len_to_cipher)
                                then Some iMB_ERR_JOB_CIPH_LEN
                                else if negb
                                          (N.eqb
                                            (N.coq_land
                                              j.jv_msg_len_to_cipher (Npos
                                              (XI (XI XH)))) N0)
                                     then Some iMB_ERR_JOB_CIPH_LEN
                                     else if negb
                                               (N.eqb j.jv_iv_len_in_bytes
                                                 (Npos (XO (XO (XO XH)))))
                                          then Some iMB_ERR_JOB_IV_LEN
                                          else None

(** val is_job_invalid_sw1_IMB_CIPHER_DOCSIS_DES :
    job_view -> n -> n -> n -> n -> n option **)

let is_job_invalid_sw1_IMB_CIPHER_DOCSIS_DES j _ _ cipher_direction key_len_in_bytes =
  if N.eqb j.jv_src N0
  then Some iMB_ERR_JOB_NULL_SRC
  else if N.eqb j.jv_dst N0
       then Some iMB_ERR_JOB_NULL_DST
       else if N.eqb j.jv_iv N0
            then Some iMB_ERR_JOB_NULL_IV
            else if (&&) (N.eqb cipher_direction iMB_DIR_ENCRYPT)
                      (N.eqb j.jv_enc_keys N0)
                 then Some iMB_ERR_JOB_NULL_KEY
                 else if (&&) (N.eqb cipher_direction iMB_DIR_DECRYPT)
                           (N.eqb j.jv_dec_keys N0)
                      then Some iMB_ERR_JOB_NULL_KEY
                      else if negb
                                (N.eqb key_len_in_bytes (Npos (XO (XO (XO
                                  XH)))))
                           then Some iMB_ERR_JOB_KEY_LEN
                           else if (||) (N.eqb j.jv_msg_len_to_cipher N0)
                                     (N.ltb (Npos (XO (XI (XI (XI (XI (XI (XI
                                       (XI (XI (XI (XI (XI (XI (XI (XI
                                       XH))))))))))))))))
                                       j.jv_msg_len_to_cipher)
                                then Some iMB_ERR_JOB_CIPH_LEN
                                else if negb
                                          (N.eqb j.jv_iv_len_in_bytes (Npos
                                            (XO (XO (XO XH)))))
                                     then Some iMB_ERR_JOB_IV_LEN
                                     else None

(** val is_job_invalid_sw1_IMB_CIPHER_CCM :
    job_view -> n -> n -> n -> n -> n option **)

let is_job_invalid_sw1_IMB_CIPHER_CCM j _ hash_alg _ key_len_in_bytes =
  oseq
    (if negb (N.eqb j.jv_msg_len_to_cipher N0)
     then if N.eqb j.jv_src N0
          then Some iMB_ERR_JOB_NULL_SRC
          else if N.eqb j.jv_dst N0 then Some iMB_ERR_JOB_NULL_DST else None
     else None)
    (if N.ltb (Npos (XO (XI (XI (XI (XI (XI (XI (XI (XI (XI (XI (XI (XI (XI
          (XI XH)))))))))))))))) j.jv_msg_len_to_cipher
     then Some iMB_ERR_JOB_CIPH_LEN
     else if N.eqb j.jv_iv N0
          then Some iMB_ERR_JOB_NULL_IV
          else if N.eqb j.jv_enc_keys N0
               then Some iMB_ERR_JOB_NULL_KEY
               else if (&&)
                         (negb
                           (N.eqb key_len_in_bytes (Npos (XO (XO (XO (XO
                             XH)))))))
                         (negb
                           (N.eqb key_len_in_bytes (Npos (XO (XO (XO (XO (XO
                             XH))))))))
                    then Some iMB_ERR_JOB_KEY_LEN
                    else if (||)
                              (N.ltb (Npos (XI (XO (XI XH))))
                                j.jv_iv_len_in_bytes)
                              (N.ltb j.jv_iv_len_in_bytes (Npos (XI (XI XH))))
                         then Some iMB_ERR_JOB_IV_LEN
                         else if negb (N.eqb hash_alg iMB_AUTH_AES_CCM)
                              then Some iMB_ERR_HASH_ALGO
                              else None)

(** val is_job_invalid_sw1_IMB_CIPHER_DES3 :
    job_view -> n -> n -> n -> n -> n option **)

let is_job_invalid_sw1_IMB_CIPHER_DES3 j _ _ cipher_direction key_len_in_bytes =
  if N.eqb j.jv_src N0
  then Some iMB_ERR_JOB_NULL_SRC
  else if N.eqb j.jv_dst N0
       then Some iMB_ERR_JOB_NULL_DST
       else if N.eqb j.jv_iv N0
            then Some iMB_ERR_JOB_NULL_IV
            else if negb
                      (N.eqb key_len_in_bytes (Npos (XO (XO (XO (XI XH))))))
                 then Some iMB_ERR_JOB_KEY_LEN
                 else if (||) (N.eqb j.jv_msg_len_to_cipher N0)
                           (N.ltb (Npos (XO (XI (XI (XI (XI (XI (XI (XI (XI
                             (XI (XI (XI (XI (XI (XI XH))))))))))))))))
                             j.jv_msg_len_to_cipher)
                      then Some iMB_ERR_JOB_CIPH_LEN
                      else if negb
                                (N.eqb
                                  (N.coq_land j.jv_msg_len_to_cipher (Npos
                                    (XI (XI XH)))) N0)
                           then Some iMB_ERR_JOB_CIPH_LEN
                           else if negb
                                     (N.eqb j.jv_iv_len_in_bytes (Npos (XO
                                       (XO (XO XH)))))
                                then Some iMB_ERR_JOB_IV_LEN
                                else oseq
                                       (if N.eqb cipher_direction
                                             iMB_DIR_ENCRYPT
                                        then let ks_ptr = j.jv_enc_keys in
                                             if N.eqb ks_ptr N0
                                             then Some iMB_ERR_JOB_NULL_KEY
                                             else if (||)
                                                       ((||)
                                                         (N.eqb j.jv_enc_ks0
                                                           N0)
                                                         (N.eqb j.jv_enc_ks1
                                                           N0))
                                                       (N.eqb j.jv_enc_ks2 N0)
                                                  then Some
                                                         iMB_ERR_JOB_NULL_KEY
                                                  else None
                                        else let ks_ptr = j.jv_dec_keys in
                                             if N.eqb ks_ptr N0
                                             then Some iMB_ERR_JOB_NULL_KEY
                                             else if (||)
                                                       ((||)
                                                         (N.eqb j.jv_dec_ks0
                                                           N0)
                                                         (N.eqb j.jv_dec_ks1
                                                           N0))
                                                       (N.eqb j.jv_dec_ks2 N0)
                                                  then Some
                                                         iMB_ERR_JOB_NULL_KEY
                                                  else None) None

(** val is_job_invalid_sw1_IMB_CIPHER_PON_AES_CNTR :
    job_view -> n -> n -> n -> n -> n option **)

let is_job_invalid_sw1_IMB_CIPHER_PON_AES_CNTR j _ hash_alg _ key_len_in_bytes =
  if N.eqb j.jv_src N0
  then Some iMB_ERR_JOB_NULL_SRC
  else if N.eqb j.jv_dst N0
       then Some iMB_ERR_JOB_NULL_DST
       else if negb
                 (N.eqb (add64 j.jv_src j.jv_cipher_start_src_offset)
                   j.jv_dst)
            then Some (Npos (XO (XI (XI (XO XH)))))
            else if negb (N.eqb hash_alg iMB_AUTH_PON_CRC_BIP)
                 then Some iMB_ERR_HASH_ALGO
                 else oseq
                        (if negb (N.eqb j.jv_msg_len_to_cipher N0)
                         then if negb
                                   (N.eqb
                                     (N.coq_land j.jv_msg_len_to_cipher (Npos
                                       (XI XH))) N0)
                              then Some iMB_ERR_JOB_CIPH_LEN
                              else if N.ltb (Npos (XO (XO (XO (XO (XO (XO (XO
                                        (XO (XO (XO (XO (XO (XO (XO
                                        XH)))))))))))))))
                                        j.jv_msg_len_to_cipher
                                   then Some iMB_ERR_JOB_CIPH_LEN
                                   else if negb
                                             (N.eqb key_len_in_bytes (Npos
                                               (XO (XO (XO (XO XH))))))
                                        then Some iMB_ERR_JOB_KEY_LEN
                                        else if negb
                                                  (N.eqb j.jv_iv_len_in_bytes
                                                    (Npos (XO (XO (XO (XO
                                                    XH))))))
                                             then Some iMB_ERR_JOB_IV_LEN
                                             else if N.eqb j.jv_iv N0
                                                  then Some
                                                         iMB_ERR_JOB_NULL_IV
                                                  else if N.eqb j.jv_enc_keys
                                                            N0
                                                       then Some
                                                              iMB_ERR_JOB_NULL_KEY
                                                       else None
                         else None)
                        (oseq
                          (if (||)
                                (N.leb (Npos (XO (XO XH)))
                                  j.jv_msg_len_to_cipher)
                                (N.leb (Npos (XO (XO (XO XH))))
                                  j.jv_msg_len_to_hash)
                           then let xgem_hdr = j.jv_mem_xgem_hdr in
                                let pli =
                                  w16
                                    (N.shiftr (bswap64 xgem_hdr) (Npos (XO
                                      (XI (XO (XO (XI XH)))))))
                                in
                                let payload_len =
                                  if negb (N.eqb j.jv_msg_len_to_cipher N0)
                                  then j.jv_msg_len_to_cipher
                                  else sub64 j.jv_msg_len_to_hash (Npos (XO
                                         (XO (XO XH))))
                                in
                                oseq
                                  (if N.ltb (Npos (XO (XO XH))) pli
                                   then let crc_len =
                                          w16 (sub32 pli (Npos (XO (XO XH))))
                                        in
                                        if (||)
                                             (N.ltb payload_len (Npos (XO (XO
                                               XH))))
                                             (N.ltb
                                               (sub64 payload_len (Npos (XO
                                                 (XO XH)))) crc_len)
                                        then Some iMB_ERR_JOB_PON_PLI
                                        else None
                                   else None) None
                           else None) None)

(** val is_job_invalid_sw1_IMB_CIPHER_ZUC_EEA3 :
    job_view -> n -> n -> n -> n -> n option **)

let is_job_invalid_sw1_IMB_CIPHER_ZUC_EEA3 j _ _ _ key_len_in_bytes =
  if N.eqb j.jv_src N0
  then Some iMB_ERR_JOB_NULL_SRC
  else if N.eqb j.jv_dst N0
       then Some iMB_ERR_JOB_NULL_DST
       else if N.eqb j.jv_iv N0
            then Some iMB_ERR_JOB_NULL_IV
            else if N.eqb j.jv_enc_keys N0
                 then Some iMB_ERR_JOB_NULL_KEY
                 else if (&&)
                           (negb
                             (N.eqb key_len_in_bytes (Npos (XO (XO (XO (XO
                               XH)))))))
                           (negb
                             (N.eqb key_len_in_bytes (Npos (XO (XO (XO (XO
                               (XO XH))))))))
                      then Some iMB_ERR_JOB_KEY_LEN
                      else if (||) (N.eqb j.jv_msg_len_to_cipher N0)
                                (N.ltb (Npos (XO (XO (XI (XI (XI (XI (XI (XI
                                  (XI (XI (XI (XI XH)))))))))))))
                                  j.jv_msg_len_to_cipher)
                           then Some iMB_ERR_JOB_CIPH_LEN
                           else oseq
                                  (if N.eqb key_len_in_bytes (Npos (XO (XO
                                        (XO (XO XH)))))
                                   then if negb
                                             (N.eqb j.jv_iv_len_in_bytes
                                               (Npos (XO (XO (XO (XO XH))))))
                                        then Some iMB_ERR_JOB_IV_LEN
                                        else None
                                   else if (&&)
                                             (negb
                                               (N.eqb j.jv_iv_len_in_bytes
                                                 (Npos (XI (XI (XI (XO
                                                 XH)))))))
                                             (negb
                                               (N.eqb j.jv_iv_len_in_bytes
                                                 (Npos (XI (XO (XO (XI
                                                 XH)))))))
                                        then Some iMB_ERR_JOB_IV_LEN
                                        else None) None

(** val is_job_invalid_sw1_IMB_CIPHER_SNOW3G_UEA2_BITLEN :
    job_view -> n -> n -> n -> n -> n option **)

let is_job_invalid_sw1_IMB_CIPHER_SNOW3G_UEA2_BITLEN j _ _ _ key_len_in_bytes =
  if N.eqb j.jv_src N0
  then Some iMB_ERR_JOB_NULL_SRC
  else if N.eqb j.jv_dst N0
       then Some iMB_ERR_JOB_NULL_DST
       else if N.eqb j.jv_iv N0
            then Some iMB_ERR_JOB_NULL_IV
            else if N.eqb j.jv_enc_keys N0
                 then Some iMB_ERR_JOB_NULL_KEY
                 else if negb
                           (N.eqb key_len_in_bytes (Npos (XO (XO (XO (XO
                             XH))))))
                      then Some iMB_ERR_JOB_KEY_LEN
                      else if (||) (N.eqb j.jv_msg_len_to_cipher N0)
                                (N.ltb (Npos (XI (XI (XI (XI (XI (XI (XI (XI
                                  (XI (XI (XI (XI (XI (XI (XI (XI (XI (XI (XI
                                  (XI (XI (XI (XI (XI (XI (XI (XI (XI (XI (XI
                                  (XI XH))))))))))))))))))))))))))))))))
                                  j.jv_msg_len_to_cipher)
                           then Some iMB_ERR_JOB_CIPH_LEN
                           else if negb
                                     (N.eqb j.jv_iv_len_in_bytes (Npos (XO
                                       (XO (XO (XO XH))))))
                                then Some iMB_ERR_JOB_IV_LEN
                                else None

(** val is_job_invalid_sw1_IMB_CIPHER_KASUMI_UEA1_BITLEN :
    job_view -> n -> n -> n -> n -> n option **)

let is_job_invalid_sw1_IMB_CIPHER_KASUMI_UEA1_BITLEN j _ _ _ key_len_in_bytes =
  if N.eqb j.jv_src N0
  then Some iMB_ERR_JOB_NULL_SRC
  else if N.eqb j.jv_dst N0
       then Some iMB_ERR_JOB_NULL_DST
       else if N.eqb j.jv_iv N0
            then Some iMB_ERR_JOB_NULL_IV
            else if N.eqb j.jv_enc_keys N0
                 then Some iMB_ERR_JOB_NULL_KEY
                 else if negb
                           (N.eqb key_len_in_bytes (Npos (XO (XO (XO (XO
                             XH))))))
                      then Some iMB_ERR_JOB_KEY_LEN
                      else if (||) (N.eqb j.jv_msg_len_to_cipher N0)
                                (N.ltb (Npos (XO (XO (XO (XO (XO (XI (XO (XO
                                  (XO (XI (XI (XI (XO (XO XH)))))))))))))))
                                  j.jv_msg_len_to_cipher)
                           then Some iMB_ERR_JOB_CIPH_LEN
                           else if negb
                                     (N.eqb j.jv_iv_len_in_bytes (Npos (XO
                                       (XO (XO XH)))))
                                then Some iMB_ERR_JOB_IV_LEN
                                else None

(** val is_job_invalid_sw1_IMB_CIPHER_CHACHA20 :
    job_view -> n -> n -> n -> n -> n option **)

let is_job_invalid_sw1_IMB_CIPHER_CHACHA20 j _ _ _ key_len_in_bytes =
  if N.eqb j.jv_src N0
  then Some iMB_ERR_JOB_NULL_SRC
  else if N.eqb j.jv_dst N0
       then Some iMB_ERR_JOB_NULL_DST
       else if N.eqb j.jv_iv N0
            then Some iMB_ERR_JOB_NULL_IV
            else if N.eqb j.jv_enc_keys N0
                 then Some iMB_ERR_JOB_NULL_KEY
                 else if negb
                           (N.eqb key_len_in_bytes (Npos (XO (XO (XO (XO (XO
                             XH)))))))
                      then Some iMB_ERR_JOB_KEY_LEN
                      else if (||) (N.eqb j.jv_msg_len_to_cipher N0)
                                (N.ltb (Npos (XO (XO (XO (XO (XO (XO (XI (XI
                                  (XI (XI (XI (XI (XI (XI (XI (XI (XI (XI (XI
                                  (XI (XI (XI (XI (XI (XI (XI (XI (XI (XI (XI
                                  (XI (XI (XI (XI (XI (XI (XI
                                  XH))))))))))))))))))))))))))))))))))))))
                                  j.jv_msg_len_to_cipher)
                           then Some iMB_ERR_JOB_CIPH_LEN
                           else if negb
                                     (N.eqb j.jv_iv_len_in_bytes (Npos (XO
                                       (XO (XI XH)))))
                                then Some iMB_ERR_JOB_IV_LEN
                                else None

(** val is_job_invalid_sw1_IMB_CIPHER_CHACHA20_POLY1305 :
    job_view -> n -> n -> n -> n -> n option **)

let is_job_invalid_sw1_IMB_CIPHER_CHACHA20_POLY1305 j _ hash_alg _ key_len_in_bytes =
  if (&&) (negb (N.eqb j.jv_msg_len_to_cipher N0)) (N.eqb j.jv_src N0)
  then Some iMB_ERR_JOB_NULL_SRC
  else if (&&) (negb (N.eqb j.jv_msg_len_to_cipher N0)) (N.eqb j.jv_dst N0)
       then Some iMB_ERR_JOB_NULL_DST
       else if N.eqb j.jv_iv N0
            then Some iMB_ERR_JOB_NULL_IV
            else if N.eqb j.jv_enc_keys N0
                 then Some iMB_ERR_JOB_NULL_KEY
                 else if negb
                           (N.eqb key_len_in_bytes (Npos (XO (XO (XO (XO (XO
                             XH)))))))
                      then Some iMB_ERR_JOB_KEY_LEN
                      else if N.ltb (Npos (XO (XO (XO (XO (XO (XO (XI (XI (XI
                                (XI (XI (XI (XI (XI (XI (XI (XI (XI (XI (XI
                                (XI (XI (XI (XI (XI (XI (XI (XI (XI (XI (XI
                                (XI (XI (XI (XI (XI (XI
                                XH))))))))))))))))))))))))))))))))))))))
                                j.jv_msg_len_to_cipher
                           then Some iMB_ERR_JOB_CIPH_LEN
                           else if negb
                                     (N.eqb j.jv_iv_len_in_bytes (Npos (XO
                                       (XO (XI XH)))))
                                then Some iMB_ERR_JOB_IV_LEN
                                else if negb
                                          (N.eqb hash_alg
                                            iMB_AUTH_CHACHA20_POLY1305)
                                     then Some iMB_ERR_HASH_ALGO
                                     else None

(** val is_job_invalid_sw1_IMB_CIPHER_CHACHA20_POLY1305_SGL :
    job_view -> n -> n -> n -> n -> n option **)

let is_job_invalid_sw1_IMB_CIPHER_CHACHA20_POLY1305_SGL j cipher_mode hash_alg cipher_direction key_len_in_bytes =
  if negb (N.eqb hash_alg iMB_AUTH_CHACHA20_POLY1305_SGL)
  then Some iMB_ERR_HASH_ALGO
  else if N.eqb j.jv_iv N0
       then Some iMB_ERR_JOB_NULL_IV
       else if negb (N.eqb j.jv_iv_len_in_bytes (Npos (XO (XO (XI XH)))))
            then Some iMB_ERR_JOB_IV_LEN
            else if N.eqb j.jv_enc_keys N0
                 then Some iMB_ERR_JOB_NULL_KEY
                 else if negb
                           (N.eqb key_len_in_bytes (Npos (XO (XO (XO (XO (XO
                             XH)))))))
                      then Some iMB_ERR_JOB_KEY_LEN
                      else oseq
                             (if (||)
                                   ((||) (N.eqb j.jv_sgl_state iMB_SGL_INIT)
                                     (N.eqb j.jv_sgl_state iMB_SGL_UPDATE))
                                   (N.eqb j.jv_sgl_state iMB_SGL_COMPLETE)
                              then if N.ltb (Npos (XO (XO (XO (XO (XO (XO (XI
                                        (XI (XI (XI (XI (XI (XI (XI (XI (XI
                                        (XI (XI (XI (XI (XI (XI (XI (XI (XI
                                        (XI (XI (XI (XI (XI (XI (XI (XI (XI
                                        (XI (XI (XI
                                        XH))))))))))))))))))))))))))))))))))))))
                                        j.jv_msg_len_to_cipher
                                   then Some iMB_ERR_JOB_CIPH_LEN
                                   else if (&&)
                                             (negb
                                               (N.eqb j.jv_msg_len_to_cipher
                                                 N0)) (N.eqb j.jv_src N0)
                                        then Some iMB_ERR_JOB_NULL_SRC
                                        else if (&&)
                                                  (negb
                                                    (N.eqb
                                                      j.jv_msg_len_to_cipher
                                                      N0)) (N.eqb j.jv_dst N0)
                                             then Some iMB_ERR_JOB_NULL_DST
                                             else None
                              else if N.eqb j.jv_sgl_state iMB_SGL_ALL
                                   then let total_sgl_len = N0 in
                                        let (loop_result, total_sgl_len0) =
                                          is_job_invalid_for1 j cipher_mode
                                            hash_alg cipher_direction
                                            key_len_in_bytes j.jv_sgl_segs N0
                                            total_sgl_len
                                        in
                                        oseq loop_result
                                          (if N.ltb (Npos (XO (XO (XO (XO (XO
                                                (XO (XI (XI (XI (XI (XI (XI
                                                (XI (XI (XI (XI (XI (XI (XI
                                                (XI (XI (XI (XI (XI (XI (XI
                                                (XI (XI (XI (XI (XI (XI (XI
                                                (XI (XI (XI (XI
                                                XH))))))))))))))))))))))))))))))))))))))
                                                total_sgl_len0
                                           then Some iMB_ERR_JOB_CIPH_LEN
                                           else None)
                                   else Some iMB_ERR_JOB_SGL_STATE) None

(** val is_job_invalid_sw1_IMB_CIPHER_SNOW_V_AEAD :
    job_view -> n -> n -> n -> n -> n option **)

let is_job_invalid_sw1_IMB_CIPHER_SNOW_V_AEAD j cipher_mode hash_alg _ key_len_in_bytes =
  if (&&) (negb (N.eqb j.jv_msg_len_to_cipher N0)) (N.eqb j.jv_src N0)
  then Some iMB_ERR_JOB_NULL_SRC
  else if (&&) (negb (N.eqb j.jv_msg_len_to_cipher N0)) (N.eqb j.jv_dst N0)
       then Some iMB_ERR_JOB_NULL_DST
       else if N.eqb j.jv_iv N0
            then Some iMB_ERR_JOB_NULL_IV
            else if N.eqb j.jv_enc_keys N0
                 then Some iMB_ERR_JOB_NULL_KEY
                 else if negb
                           (N.eqb key_len_in_bytes (Npos (XO (XO (XO (XO (XO
                             XH)))))))
                      then Some iMB_ERR_JOB_KEY_LEN
                      else if negb
                                (N.eqb j.jv_iv_len_in_bytes (Npos (XO (XO (XO
                                  (XO XH))))))
                           then Some iMB_ERR_JOB_IV_LEN
                           else if (&&)
                                     (N.eqb cipher_mode
                                       iMB_CIPHER_SNOW_V_AEAD)
                                     (negb
                                       (N.eqb hash_alg iMB_AUTH_SNOW_V_AEAD))
                                then Some iMB_ERR_HASH_ALGO
                                else None

(** val is_job_invalid_sw1_IMB_CIPHER_SM4_CNTR :
    job_view -> n -> n -> n -> n -> n option **)

let is_job_invalid_sw1_IMB_CIPHER_SM4_CNTR j _ _ _ key_len_in_bytes =
  if N.eqb j.jv_src N0
  then Some iMB_ERR_JOB_NULL_SRC
  else if N.eqb j.jv_dst N0
       then Some iMB_ERR_JOB_NULL_DST
       else if N.eqb j.jv_iv N0
            then Some iMB_ERR_JOB_NULL_IV
            else if N.eqb j.jv_enc_keys N0
                 then Some iMB_ERR_JOB_NULL_KEY
                 else if negb
                           (N.eqb key_len_in_bytes (Npos (XO (XO (XO (XO
                             XH))))))
                      then Some iMB_ERR_JOB_KEY_LEN
                      else if (&&)
                                (negb
                                  (N.eqb j.jv_iv_len_in_bytes (Npos (XO (XO
                                    (XO (XO XH)))))))
                                (negb
                                  (N.eqb j.jv_iv_len_in_bytes (Npos (XO (XO
                                    (XI XH))))))
                           then Some iMB_ERR_JOB_IV_LEN
                           else if N.eqb j.jv_msg_len_to_cipher N0
                                then Some iMB_ERR_JOB_CIPH_LEN
                                else None

(** val is_job_invalid_sw1_IMB_CIPHER_SM4_ECB :
    job_view -> n -> n -> n -> n -> n option **)

let is_job_invalid_sw1_IMB_CIPHER_SM4_ECB j _ _ cipher_direction key_len_in_bytes =
  if N.eqb j.jv_src N0
  then Some iMB_ERR_JOB_NULL_SRC
  else if N.eqb j.jv_dst N0
       then Some iMB_ERR_JOB_NULL_DST
       else if (&&) (N.eqb cipher_direction iMB_DIR_ENCRYPT)
                 (N.eqb j.jv_enc_keys N0)
            then Some iMB_ERR_JOB_NULL_KEY
            else if (&&) (N.eqb cipher_direction iMB_DIR_DECRYPT)
                      (N.eqb j.jv_dec_keys N0)
                 then Some iMB_ERR_JOB_NULL_KEY
                 else if negb
                           (N.eqb key_len_in_bytes (Npos (XO (XO (XO (XO
                             XH))))))
                      then Some iMB_ERR_JOB_KEY_LEN
                      else if N.eqb j.jv_msg_len_to_cipher N0
                           then Some iMB_ERR_JOB_CIPH_LEN
                           else if negb
                                     (N.eqb
                                       (N.coq_land j.jv_msg_len_to_cipher
                                         (Npos (XI (XI (XI XH))))) N0)
                                then Some iMB_ERR_JOB_CIPH_LEN
                                else None

(** val is_job_invalid_sw1_IMB_CIPHER_SM4_CBC :
    job_view -> n -> n -> n -> n -> n option **)

let is_job_invalid_sw1_IMB_CIPHER_SM4_CBC j cipher_mode hash_alg cipher_direction key_len_in_bytes =
  if negb (N.eqb j.jv_iv_len_in_bytes (Npos (XO (XO (XO (XO XH))))))
  then Some iMB_ERR_JOB_IV_LEN
  else if N.eqb j.jv_iv N0
       then Some iMB_ERR_JOB_NULL_IV
       else if N.ltb (Npos (XO (XI (XI (XI (XI (XI (XI (XI (XI (XI (XI (XI
                 (XI (XI (XI XH)))))))))))))))) j.jv_msg_len_to_cipher
            then Some iMB_ERR_JOB_CIPH_LEN
            else is_job_invalid_sw1_IMB_CIPHER_SM4_ECB j cipher_mode hash_alg
                   cipher_direction key_len_in_bytes

(** val is_job_invalid_sw1_IMB_CIPHER_CFB :
    job_view -> n -> n -> n -> n -> n option **)

let is_job_invalid_sw1_IMB_CIPHER_CFB j _ _ cipher_direction key_len_in_bytes =
  if (&&) (negb (N.eqb j.jv_msg_len_to_cipher N0)) (N.eqb j.jv_src N0)
  then Some iMB_ERR_JOB_NULL_SRC
  else if (&&) (negb (N.eqb j.jv_msg_len_to_cipher N0)) (N.eqb j.jv_dst N0)
       then Some iMB_ERR_JOB_NULL_DST
       else if N.eqb j.jv_iv N0
            then Some iMB_ERR_JOB_NULL_IV
            else if (&&) (N.eqb cipher_direction iMB_DIR_ENCRYPT)
                      (N.eqb j.jv_enc_keys N0)
                 then Some iMB_ERR_JOB_NULL_KEY
                 else if (&&) (N.eqb cipher_direction iMB_DIR_DECRYPT)
                           (N.eqb j.jv_dec_keys N0)
                      then Some iMB_ERR_JOB_NULL_KEY
                      else if (&&)
                                ((&&)
                                  (negb
                                    (N.eqb key_len_in_bytes (Npos (XO (XO (XO
                                      (XO XH)))))))
                                  (negb
                                    (N.eqb key_len_in_bytes (Npos (XO (XO (XO
                                      (XI XH))))))))
                                (negb
                                  (N.eqb key_len_in_bytes (Npos (XO (XO (XO
                                    (XO (XO XH))))))))
                           then Some iMB_ERR_JOB_KEY_LEN
                           else if negb
                                     (N.eqb j.jv_iv_len_in_bytes (Npos (XO
                                       (XO (XO (XO XH))))))
                                then Some iMB_ERR_JOB_IV_LEN
                                else if negb
                                          (N.eqb
                                            (N.coq_land
                                              j.jv_msg_len_to_cipher (Npos
                                              (XI (XI (XI XH))))) N0)
                                     then Some iMB_ERR_JOB_CIPH_LEN
                                     else None

(** val is_job_invalid_sw1_default :
    job_view -> n -> n -> n -> n -> n option **)

let is_job_invalid_sw1_default _ _ _ _ _ =
  Some iMB_ERR_CIPH_MODE

(** val is_job_invalid_sw1 : job_view -> n -> n -> n -> n -> n option **)

let is_job_invalid_sw1 j cipher_mode hash_alg cipher_direction key_len_in_bytes =
  if (||) (N.eqb cipher_mode iMB_CIPHER_CBC)
       (N.eqb cipher_mode iMB_CIPHER_CBCS_1_9)
  then is_job_invalid_sw1_IMB_CIPHER_CBC j cipher_mode hash_alg
         cipher_direction key_len_in_bytes
  else if N.eqb cipher_mode iMB_CIPHER_ECB
       then is_job_invalid_sw1_IMB_CIPHER_ECB j cipher_mode hash_alg
              cipher_direction key_len_in_bytes
       else if (||) (N.eqb cipher_mode iMB_CIPHER_CNTR)
                 (N.eqb cipher_mode iMB_CIPHER_CNTR_BITLEN)
            then is_job_invalid_sw1_IMB_CIPHER_CNTR j cipher_mode hash_alg
                   cipher_direction key_len_in_bytes
            else if N.eqb cipher_mode iMB_CIPHER_NULL
                 then is_job_invalid_sw1_IMB_CIPHER_NULL j cipher_mode
                        hash_alg cipher_direction key_len_in_bytes
                 else if N.eqb cipher_mode iMB_CIPHER_DOCSIS_SEC_BPI
                      then is_job_invalid_sw1_IMB_CIPHER_DOCSIS_SEC_BPI j
                             cipher_mode hash_alg cipher_direction
                             key_len_in_bytes
                      else if N.eqb cipher_mode iMB_CIPHER_GCM
                           then is_job_invalid_sw1_IMB_CIPHER_GCM j
                                  cipher_mode hash_alg cipher_direction
                                  key_len_in_bytes
                           else if N.eqb cipher_mode iMB_CIPHER_GCM_SGL
                                then is_job_invalid_sw1_IMB_CIPHER_GCM_SGL j
                                       cipher_mode hash_alg cipher_direction
                                       key_len_in_bytes
                                else if N.eqb cipher_mode iMB_CIPHER_SM4_GCM
                                     then is_job_invalid_sw1_IMB_CIPHER_SM4_GCM
                                            j cipher_mode hash_alg
                                            cipher_direction key_len_in_bytes
                                     else if N.eqb cipher_mode
                                               iMB_CIPHER_CUSTOM
                                          then is_job_invalid_sw1_IMB_CIPHER_CUSTOM
                                                 j cipher_mode hash_alg
                                                 cipher_direction
                                                 key_len_in_bytes
                                          else if N.eqb cipher_mode
                                                    iMB_CIPHER_DES
                                               then is_job_invalid_sw1_IMB_CIPHER_DES
                                                      j cipher_mode hash_alg
                                                      cipher_direction
                                                      key_len_in_bytes
                                               else if N.eqb cipher_mode
                                                         iMB_CIPHER_DOCSIS_DES
                                                    then is_job_invalid_sw1_IMB_CIPHER_DOCSIS_DES
                                                           j cipher_mode
                                                           hash_alg
                                                           cipher_direction
                                                           key_len_in_bytes
                                                    else if N.eqb cipher_mode
                                                              iMB_CIPHER_CCM
                                                         then is_job_invalid_sw1_IMB_CIPHER_CCM
                                                                j cipher_mode
                                                                hash_alg
                                                                cipher_direction
                                                                key_len_in_bytes
                                                         else if N.eqb
                                                                   cipher_mode
                                                                   iMB_CIPHER_DES3
                                                              then is_job_invalid_sw1_IMB_CIPHER_DES3
                                                                    j
                                                                    cipher_mode
                                                                    hash_alg
                                                                    cipher_direction
                                                                    key_len_in_bytes
                                                              else if 
                                                                    N.eqb
                                                                    cipher_mode
                                                                    iMB_CIPHER_PON_AES_CNTR
                                                                   then 
                                                                    is_job_invalid_sw1_IMB_CIPHER_PON_AES_CNTR
                                                                    j
                                                                    cipher_mode
                                                                    hash_alg
                                                                    cipher_direction
                                                                    key_len_in_bytes
                                                                   else 
                                                                    if 
                                                                    N.eqb
                                                                    cipher_mode
                                                                    iMB_CIPHER_ZUC_EEA3
                                                                    then 
                                                                    is_job_invalid_sw1_IMB_CIPHER_ZUC_EEA3
                                                                    j
                                                                    cipher_mode
                                                                    hash_alg
                                                                    cipher_direction
                                                                    key_len_in_bytes
                                                                    else 
                                                                    if 
                                                                    N.eqb
                                                                    cipher_mode
                                                                    iMB_CIPHER_SNOW3G_UEA2_BITLEN
                                                                    then 
                                                                    is_job_invalid_sw1_IMB_CIPHER_SNOW3G_UEA2_BITLEN
                                                                    j
                                                                    cipher_mode
                                                                    hash_alg
                                                                    cipher_direction
                                                                    key_len_in_bytes
                                                                    else 
                                                                    if 
                                                                    N.eqb
                                                                    cipher_mode
                                                                    iMB_CIPHER_KASUMI_UEA1_BITLEN
                                                                    then 
                                                                    is_job_invalid_sw1_IMB_CIPHER_KASUMI_UEA1_BITLEN
                                                                    j
                                                                    cipher_mode
                                                                    hash_alg
                                                                    cipher_direction
                                                                    key_len_in_bytes
                                                                    else 
                                                                    if 
                                                                    N.eqb
                                                                    cipher_mode
                                                                    iMB_CIPHER_CHACHA20
                                                                    then 
                                                                    is_job_invalid_sw1_IMB_CIPHER_CHACHA20
                                                                    j
                                                                    cipher_mode
                                                                    hash_alg
                                                                    cipher_direction
                                                                    key_len_in_bytes
                                                                    else 
                                                                    if 
                                                                    N.eqb
                                                                    cipher_mode
                                                                    iMB_CIPHER_CHACHA20_POLY1305
                                                                    then 
                                                                    is_job_invalid_sw1_IMB_CIPHER_CHACHA20_POLY1305
                                                                    j
                                                                    cipher_mode
                                                                    hash_alg
                                                                    cipher_direction
                                                                    key_len_in_bytes
                                                                    else 
                                                                    if 
                                                                    N.eqb
                                                                    cipher_mode
                                                                    iMB_CIPHER_CHACHA20_POLY1305_SGL
                                                                    then 
                                                                    is_job_invalid_sw1_IMB_CIPHER_CHACHA20_POLY1305_SGL
                                                                    j
                                                                    cipher_mode
                                                                    hash_alg
                                                                    cipher_direction
                                                                    key_len_in_bytes
                                                                    else 
                                                                    if 
                                                                    (||)
                                                                    (N.eqb
                                                                    cipher_mode
                                                                    iMB_CIPHER_SNOW_V_AEAD)
                                                                    (N.eqb
                                                                    cipher_mode
                                                                    iMB_CIPHER_SNOW_V)
                                                                    then 
                                                                    is_job_invalid_sw1_IMB_CIPHER_SNOW_V_AEAD
                                                                    j
                                                                    cipher_mode
                                                                    hash_alg
                                                                    cipher_direction
                                                                    key_len_in_bytes
                                                                    else 
                                                                    if 
                                                                    N.eqb
                                                                    cipher_mode
                                                                    iMB_CIPHER_SM4_CNTR
                                                                    then 
                                                                    is_job_invalid_sw1_IMB_CIPHER_SM4_CNTR
                                                                    j
                                                                    cipher_mode
                                                                    hash_alg
                                                                    cipher_direction
                                                                    key_len_in_bytes
                                                                    else 
                                                                    if 
                                                                    N.eqb
                                                                    cipher_mode
                                                                    iMB_CIPHER_SM4_CBC
                                                                    then 
                                                                    is_job_invalid_sw1_IMB_CIPHER_SM4_CBC
                                                                    j
                                                                    cipher_mode
                                                                    hash_alg
                                                                    cipher_direction
                                                                    key_len_in_bytes
                                                                    else 
                                                                    if 
                                                                    N.eqb
                                                                    cipher_mode
                                                                    iMB_CIPHER_SM4_ECB
                                                                    then 
                                                                    is_job_invalid_sw1_IMB_CIPHER_SM4_ECB
                                                                    j
                                                                    cipher_mode
                                                                    hash_alg
                                                                    cipher_direction
                                                                    key_len_in_bytes
                                                                    else 
                                                                    if 
                                                                    N.eqb
                                                                    cipher_mode
                                                                    iMB_CIPHER_CFB
                                                                    then 
                                                                    is_job_invalid_sw1_IMB_CIPHER_CFB
                                                                    j
                                                                    cipher_mode
                                                                    hash_alg
                                                                    cipher_direction
                                                                    key_len_in_bytes
                                                                    else 
                                                                    is_job_invalid_sw1_default
                                                                    j
                                                                    cipher_mode
                                                                    hash_alg
                                                                    cipher_direction
                                                                    key_len_in_bytes

(** val is_job_invalid_sw2_IMB_AUTH_HMAC_SHA_1 :
    job_view -> n -> n -> n -> n -> n option **)

let is_job_invalid_sw2_IMB_AUTH_HMAC_SHA_1 j _ hash_alg _ _ =
  if N.eqb j.jv_src N0
  then Some iMB_ERR_JOB_NULL_SRC
  else if (&&)
            (negb
              (N.eqb j.jv_auth_tag_output_len
                (nth_N is_job_invalid_tab_auth_tag_len_ipsec hash_alg)))
            (negb
              (N.eqb j.jv_auth_tag_output_len
                (nth_N is_job_invalid_tab_auth_tag_len_fips hash_alg)))
       then Some iMB_ERR_JOB_AUTH_TAG_LEN
       else if (||) (N.eqb j.jv_msg_len_to_hash N0)
                 (N.ltb (Npos (XO (XI (XI (XI (XI (XI (XI (XI (XI (XI (XI (XI
                   (XI (XI (XI XH)))))))))))))))) j.jv_msg_len_to_hash)
            then Some iMB_ERR_JOB_AUTH_LEN
            else if N.eqb j.jv_auth_tag_output N0
                 then Some iMB_ERR_JOB_NULL_AUTH
                 else if N.eqb j.jv_u0 N0
                      then Some iMB_ERR_JOB_NULL_HMAC_IPAD
                      else if N.eqb j.jv_u1 N0
                           then Some iMB_ERR_JOB_NULL_HMAC_OPAD
                           else None

(** val is_job_invalid_sw2_IMB_AUTH_AES_XCBC :
    job_view -> n -> n -> n -> n -> n option **)

let is_job_invalid_sw2_IMB_AUTH_AES_XCBC j _ hash_alg _ _ =
  if N.eqb j.jv_src N0
  then Some iMB_ERR_JOB_NULL_SRC
  else if (&&)
            (negb
              (N.eqb j.jv_auth_tag_output_len
                (nth_N is_job_invalid_tab_auth_tag_len_ipsec hash_alg)))
            (negb
              (N.eqb j.jv_auth_tag_output_len
                (nth_N is_job_invalid_tab_auth_tag_len_fips hash_alg)))
       then Some iMB_ERR_JOB_AUTH_TAG_LEN
       else if N.eqb j.jv_auth_tag_output N0
            then Some iMB_ERR_JOB_NULL_AUTH
            else if N.ltb (Npos (XO (XI (XI (XI (XI (XI (XI (XI (XI (XI (XI
                      (XI (XI (XI (XI XH)))))))))))))))) j.jv_msg_len_to_hash
                 then Some iMB_ERR_JOB_AUTH_LEN
                 else if N.eqb j.jv_u0 N0
                      then Some iMB_ERR_JOB_NULL_XCBC_K1_EXP
                      else if N.eqb j.jv_u1 N0
                           then Some iMB_ERR_JOB_NULL_XCBC_K2
                           else if N.eqb j.jv_u2 N0
                                then Some iMB_ERR_JOB_NULL_XCBC_K3
                                else None

(** val is_job_invalid_sw2_IMB_AUTH_NULL :
    job_view -> n -> n -> n -> n -> n option **)

let is_job_invalid_sw2_IMB_AUTH_NULL _ _ _ _ _ =
  None

(** val is_job_invalid_sw2_IMB_AUTH_CRC32_ETHERNET_FCS :
    job_view -> n -> n -> n -> n -> n option **)

let is_job_invalid_sw2_IMB_AUTH_CRC32_ETHERNET_FCS j _ hash_alg _ _ =
  if (&&) (N.eqb j.jv_src N0) (negb (N.eqb j.jv_msg_len_to_hash N0))
  then Some iMB_ERR_JOB_NULL_SRC
  else if N.eqb j.jv_auth_tag_output N0
       then Some iMB_ERR_JOB_NULL_AUTH
       else if negb
                 (N.eqb j.jv_auth_tag_output_len
                   (nth_N is_job_invalid_tab_auth_tag_len_ipsec hash_alg))
            then Some iMB_ERR_JOB_AUTH_TAG_LEN
            else None

(** val is_job_invalid_sw2_IMB_AUTH_AES_GMAC :
    job_view -> n -> n -> n -> n -> n option **)

let is_job_invalid_sw2_IMB_AUTH_AES_GMAC j cipher_mode _ _ _ =
  if (||) (N.ltb j.jv_auth_tag_output_len (Npos XH))
       (N.ltb (Npos (XO (XO (XO (XO XH))))) j.jv_auth_tag_output_len)
  then Some iMB_ERR_JOB_AUTH_TAG_LEN
  else if (&&) (N.ltb N0 j.jv_u1) (N.eqb j.jv_u0 N0)
       then Some iMB_ERR_JOB_NULL_AAD
       else if negb (N.eqb cipher_mode iMB_CIPHER_GCM)
            then Some iMB_ERR_CIPH_MODE
            else if N.eqb j.jv_auth_tag_output N0
                 then Some iMB_ERR_JOB_NULL_AUTH
                 else None

(** val is_job_invalid_sw2_IMB_AUTH_GCM_SGL :
    job_view -> n -> n -> n -> n -> n option **)

let is_job_invalid_sw2_IMB_AUTH_GCM_SGL j cipher_mode _ _ _ =
  if negb (N.eqb cipher_mode iMB_CIPHER_GCM_SGL)
  then Some iMB_ERR_CIPH_MODE
  else if N.eqb j.jv_u2 N0
       then Some iMB_ERR_JOB_NULL_SGL_CTX
       else oseq
              (if (||) (N.eqb j.jv_sgl_state iMB_SGL_COMPLETE)
                    (N.eqb j.jv_sgl_state iMB_SGL_ALL)
               then if (||) (N.ltb j.jv_auth_tag_output_len (Npos XH))
                         (N.ltb (Npos (XO (XO (XO (XO XH)))))
                           j.jv_auth_tag_output_len)
                    then Some iMB_ERR_JOB_AUTH_TAG_LEN
                    else if N.eqb j.jv_auth_tag_output N0
                         then Some iMB_ERR_JOB_NULL_AUTH
                         else None
               else None)
              (oseq
                (if (||) (N.eqb j.jv_sgl_state iMB_SGL_INIT)
                      (N.eqb j.jv_sgl_state iMB_SGL_ALL)
                 then if (&&) (N.ltb N0 j.jv_u1) (N.eqb j.jv_u0 N0)
                      then Some iMB_ERR_JOB_NULL_AAD
                      else None
                 else None) None)

(** val is_job_invalid_sw2_IMB_AUTH_AES_GMAC_128 :
    job_view -> n -> n -> n -> n -> n option **)

let is_job_invalid_sw2_IMB_AUTH_AES_GMAC_128 j cipher_mode _ _ _ =
  if (||) (N.ltb j.jv_auth_tag_output_len (Npos XH))
       (N.ltb (Npos (XO (XO (XO (XO XH))))) j.jv_auth_tag_output_len)
  then Some iMB_ERR_JOB_AUTH_TAG_LEN
  else if N.eqb j.jv_auth_tag_output N0
       then Some iMB_ERR_JOB_NULL_AUTH
       else if N.eqb cipher_mode iMB_CIPHER_GCM
            then Some iMB_ERR_CIPH_MODE
            else if N.eqb j.jv_u0 N0
                 then Some iMB_ERR_JOB_NULL_AUTH_KEY
                 else if N.eqb j.jv_u1 N0
                      then Some iMB_ERR_JOB_NULL_IV
                      else if N.eqb j.jv_u2 N0
                           then Some iMB_ERR_JOB_IV_LEN
                           else if (&&)
                                     (negb (N.eqb j.jv_msg_len_to_hash N0))
                                     (N.eqb j.jv_src N0)
                                then Some iMB_ERR_JOB_NULL_SRC
                                else None

(** val is_job_invalid_sw2_IMB_AUTH_GHASH :
    job_view -> n -> n -> n -> n -> n option **)

let is_job_invalid_sw2_IMB_AUTH_GHASH j _ _ _ _ =
  if (||) (N.ltb j.jv_auth_tag_output_len (Npos XH))
       (N.ltb (Npos (XO (XO (XO (XO XH))))) j.jv_auth_tag_output_len)
  then Some iMB_ERR_JOB_AUTH_TAG_LEN
  else if N.eqb j.jv_auth_tag_output N0
       then Some iMB_ERR_JOB_NULL_AUTH
       else if N.eqb j.jv_u0 N0
            then Some iMB_ERR_JOB_NULL_AUTH_KEY
            else if N.eqb j.jv_u1 N0
                 then Some iMB_ERR_JOB_NULL_GHASH_INIT_TAG
                 else if (&&) (negb (N.eqb j.jv_msg_len_to_hash N0))
                           (N.eqb j.jv_src N0)
                      then Some iMB_ERR_JOB_NULL_SRC
                      else None

(** val is_job_invalid_sw2_IMB_AUTH_CUSTOM :
    job_view -> n -> n -> n -> n -> n option **)

let is_job_invalid_sw2_IMB_AUTH_CUSTOM j _ _ _ _ =
  if N.eqb j.jv_hash_func N0 then Some (Npos (XO (XI (XI XH)))) else None

(** val is_job_invalid_sw2_IMB_AUTH_AES_CCM :
    job_view -> n -> n -> n -> n -> n option **)

let is_job_invalid_sw2_IMB_AUTH_AES_CCM j cipher_mode _ _ _ =
  if (&&) (negb (N.eqb j.jv_msg_len_to_hash N0)) (N.eqb j.jv_src N0)
  then Some iMB_ERR_JOB_NULL_SRC
  else if N.ltb (Npos (XO (XI (XI (XI (XO XH)))))) j.jv_u1
       then Some iMB_ERR_JOB_AAD_LEN
       else if (&&) (N.ltb N0 j.jv_u1) (N.eqb j.jv_u0 N0)
            then Some iMB_ERR_JOB_NULL_AAD
            else if (||)
                      ((||)
                        (N.ltb j.jv_auth_tag_output_len (Npos (XO (XO XH))))
                        (N.ltb (Npos (XO (XO (XO (XO XH)))))
                          j.jv_auth_tag_output_len))
                      (negb
                        (N.eqb
                          (N.coq_land j.jv_auth_tag_output_len (Npos XH)) N0))
                 then Some iMB_ERR_JOB_AUTH_TAG_LEN
                 else if negb (N.eqb cipher_mode iMB_CIPHER_CCM)
                      then Some iMB_ERR_CIPH_MODE
                      else if N.ltb (Npos (XO (XI (XI (XI (XI (XI (XI (XI (XI
                                (XI (XI (XI (XI (XI (XI XH))))))))))))))))
                                j.jv_msg_len_to_hash
                           then Some iMB_ERR_JOB_AUTH_LEN
                           else if negb
                                     (N.eqb j.jv_msg_len_to_cipher
                                       j.jv_msg_len_to_hash)
                                then Some iMB_ERR_JOB_CIPH_LEN
                                else if negb
                                          (N.eqb j.jv_cipher_start_src_offset
                                            j.jv_hash_start_src_offset)
                                     then Some iMB_ERR_JOB_SRC_OFFSET
                                     else if N.eqb j.jv_auth_tag_output N0
                                          then Some iMB_ERR_JOB_NULL_AUTH
                                          else None

(** val is_job_invalid_sw2_IMB_AUTH_AES_CMAC :
    job_view -> n -> n -> n -> n -> n option **)

let is_job_invalid_sw2_IMB_AUTH_AES_CMAC j _ _ _ _ =
  if N.eqb j.jv_src N0
  then Some iMB_ERR_JOB_NULL_SRC
  else if (||) ((||) (N.eqb j.jv_u0 N0) (N.eqb j.jv_u1 N0)) (N.eqb j.jv_u2 N0)
       then Some iMB_ERR_JOB_NULL_KEY
       else if (||) (N.ltb j.jv_auth_tag_output_len (Npos XH))
                 (N.ltb (Npos (XO (XO (XO (XO XH)))))
                   j.jv_auth_tag_output_len)
            then Some iMB_ERR_JOB_AUTH_TAG_LEN
            else if N.eqb j.jv_auth_tag_output N0
                 then Some iMB_ERR_JOB_NULL_AUTH
                 else oseq
                        (if N.eqb j.jv_hash_alg iMB_AUTH_AES_CMAC_BITLEN
                         then if N.ltb (Npos (XO (XO (XO (XO (XI (XI (XI (XI
                                   (XI (XI (XI (XI (XI (XI (XI (XI (XI (XI
                                   XH))))))))))))))))))) j.jv_msg_len_to_hash
                              then Some iMB_ERR_JOB_AUTH_LEN
                              else None
                         else if N.ltb (Npos (XO (XI (XI (XI (XI (XI (XI (XI
                                   (XI (XI (XI (XI (XI (XI (XI
                                   XH)))))))))))))))) j.jv_msg_len_to_hash
                              then Some iMB_ERR_JOB_AUTH_LEN
                              else None) None

(** val is_job_invalid_sw2_IMB_AUTH_SHA_1 :
    job_view -> n -> n -> n -> n -> n option **)

let is_job_invalid_sw2_IMB_AUTH_SHA_1 j _ hash_alg _ _ =
  if negb
       (N.eqb j.jv_auth_tag_output_len
         (nth_N is_job_invalid_tab_auth_tag_len_ipsec hash_alg))
  then Some iMB_ERR_JOB_AUTH_TAG_LEN
  else if N.eqb j.jv_src N0
       then Some iMB_ERR_JOB_NULL_SRC
       else if N.eqb j.jv_auth_tag_output N0
            then Some iMB_ERR_JOB_NULL_AUTH
            else if N.ltb (Npos (XO (XI (XI (XI (XI (XI (XI (XI (XI (XI (XI
                      (XI (XI (XI (XI XH)))))))))))))))) j.jv_msg_len_to_hash
                 then Some iMB_ERR_JOB_AUTH_LEN
                 else None

(** val is_job_invalid_sw2_IMB_AUTH_PON_CRC_BIP :
    job_view -> n -> n -> n -> n -> n option **)

let is_job_invalid_sw2_IMB_AUTH_PON_CRC_BIP j cipher_mode hash_alg _ _ =
  if (||)
       ((||)
         (negb (N.eqb (N.coq_land j.jv_msg_len_to_hash (Npos (XI XH))) N0))
         (N.ltb j.jv_msg_len_to_hash (Npos (XO (XO (XO XH))))))
       (N.ltb (Npos (XO (XO (XO (XI (XO (XO (XO (XO (XO (XO (XO (XO (XO (XO
         XH))))))))))))))) j.jv_msg_len_to_hash)
  then Some iMB_ERR_JOB_AUTH_LEN
  else if negb
            (N.eqb j.jv_auth_tag_output_len
              (nth_N is_job_invalid_tab_auth_tag_len_ipsec hash_alg))
       then Some iMB_ERR_JOB_AUTH_TAG_LEN
       else if negb (N.eqb cipher_mode iMB_CIPHER_PON_AES_CNTR)
            then Some iMB_ERR_CIPH_MODE
            else if N.eqb j.jv_auth_tag_output N0
                 then Some iMB_ERR_JOB_NULL_AUTH
                 else None

(** val is_job_invalid_sw2_IMB_AUTH_ZUC_EIA3_BITLEN :
    job_view -> n -> n -> n -> n -> n option **)

let is_job_invalid_sw2_IMB_AUTH_ZUC_EIA3_BITLEN j _ hash_alg _ _ =
  if N.eqb j.jv_src N0
  then Some iMB_ERR_JOB_NULL_SRC
  else if (||) (N.ltb j.jv_msg_len_to_hash (Npos XH))
            (N.ltb (Npos (XO (XO (XO (XO (XO (XI (XI (XI (XI (XI (XI (XI (XI
              (XI (XI XH)))))))))))))))) j.jv_msg_len_to_hash)
       then Some iMB_ERR_JOB_AUTH_LEN
       else if N.eqb j.jv_u0 N0
            then Some iMB_ERR_JOB_NULL_KEY
            else if N.eqb j.jv_u1 N0
                 then Some iMB_ERR_JOB_NULL_IV
                 else if negb
                           (N.eqb j.jv_auth_tag_output_len
                             (nth_N is_job_invalid_tab_auth_tag_len_ipsec
                               hash_alg))
                      then Some iMB_ERR_JOB_AUTH_TAG_LEN
                      else if N.eqb j.jv_auth_tag_output N0
                           then Some iMB_ERR_JOB_NULL_AUTH
                           else None

(** val is_job_invalid_sw2_IMB_AUTH_ZUC256_EIA3_BITLEN :
    job_view -> n -> n -> n -> n -> n option **)

let is_job_invalid_sw2_IMB_AUTH_ZUC256_EIA3_BITLEN j _ _ _ _ =
  if N.eqb j.jv_src N0
  then Some iMB_ERR_JOB_NULL_SRC
  else if (||) (N.ltb j.jv_msg_len_to_hash (Npos XH))
            (N.ltb (Npos (XO (XO (XO (XO (XO (XI (XI (XI (XI (XI (XI (XI (XI
              (XI (XI XH)))))))))))))))) j.jv_msg_len_to_hash)
       then Some iMB_ERR_JOB_AUTH_LEN
       else if N.eqb j.jv_u0 N0
            then Some iMB_ERR_JOB_NULL_KEY
            else oseq
                   (if N.eqb j.jv_u1 N0
                    then if N.eqb j.jv_u2 N0
                         then Some iMB_ERR_JOB_NULL_IV
                         else None
                    else None)
                   (if (&&)
                         ((&&)
                           (negb
                             (N.eqb j.jv_auth_tag_output_len (Npos (XO (XO
                               XH)))))
                           (negb
                             (N.eqb j.jv_auth_tag_output_len (Npos (XO (XO
                               (XO XH)))))))
                         (negb
                           (N.eqb j.jv_auth_tag_output_len (Npos (XO (XO (XO
                             (XO XH)))))))
                    then Some iMB_ERR_JOB_AUTH_TAG_LEN
                    else if N.eqb j.jv_auth_tag_output N0
                         then Some iMB_ERR_JOB_NULL_AUTH
                         else None)

(** val is_job_invalid_sw2_IMB_AUTH_DOCSIS_CRC32 :
    job_view -> n -> n -> n -> n -> n option **)

let is_job_invalid_sw2_IMB_AUTH_DOCSIS_CRC32 j cipher_mode hash_alg cipher_direction _ =
  if negb (N.eqb cipher_mode iMB_CIPHER_DOCSIS_SEC_BPI)
  then Some iMB_ERR_CIPH_MODE
  else oseq
         (if (&&) (negb (N.eqb j.jv_msg_len_to_cipher N0))
               (negb (N.eqb j.jv_msg_len_to_hash N0))
          then if N.ltb j.jv_msg_len_to_hash
                    (add64 j.jv_msg_len_to_cipher (Npos (XO (XO (XO XH)))))
               then Some iMB_ERR_JOB_CIPH_LEN
               else if N.ltb j.jv_cipher_start_src_offset
                         (add64 j.jv_hash_start_src_offset (Npos (XO (XO (XI
                           XH)))))
                    then Some iMB_ERR_JOB_SRC_OFFSET
                    else None
          else None)
         (if N.ltb (Npos (XO (XI (XI (XI (XI (XI (XI (XI (XI (XI (XI (XI (XI
               (XI (XI XH)))))))))))))))) j.jv_msg_len_to_hash
          then Some iMB_ERR_JOB_AUTH_LEN
          else if N.eqb j.jv_auth_tag_output N0
               then Some iMB_ERR_JOB_NULL_AUTH
               else if negb
                         (N.eqb j.jv_auth_tag_output_len
                           (nth_N is_job_invalid_tab_auth_tag_len_ipsec
                             hash_alg))
                    then Some iMB_ERR_JOB_AUTH_TAG_LEN
                    else if (||)
                              ((&&) (N.eqb cipher_direction iMB_DIR_ENCRYPT)
                                (negb
                                  (N.eqb j.jv_chain_order
                                    iMB_ORDER_HASH_CIPHER)))
                              ((&&) (N.eqb cipher_direction iMB_DIR_DECRYPT)
                                (negb
                                  (N.eqb j.jv_chain_order
                                    iMB_ORDER_CIPHER_HASH)))
                         then Some iMB_ERR_JOB_CHAIN_ORDER
                         else None)

(** val is_job_invalid_sw2_IMB_AUTH_SNOW3G_UIA2_BITLEN :
    job_view -> n -> n -> n -> n -> n option **)

let is_job_invalid_sw2_IMB_AUTH_SNOW3G_UIA2_BITLEN j _ hash_alg _ _ =
  if N.eqb j.jv_src N0
  then Some iMB_ERR_JOB_NULL_SRC
  else if (||) (N.eqb j.jv_msg_len_to_hash N0)
            (N.ltb (Npos (XI (XI (XI (XI (XI (XI (XI (XI (XI (XI (XI (XI (XI
              (XI (XI (XI (XI (XI (XI (XI (XI (XI (XI (XI (XI (XI (XI (XI (XI
              (XI (XI XH)))))))))))))))))))))))))))))))) j.jv_msg_len_to_hash)
       then Some iMB_ERR_JOB_AUTH_LEN
       else if N.eqb j.jv_u0 N0
            then Some iMB_ERR_JOB_NULL_KEY
            else if N.eqb j.jv_u1 N0
                 then Some iMB_ERR_JOB_NULL_IV
                 else if negb
                           (N.eqb j.jv_auth_tag_output_len
                             (nth_N is_job_invalid_tab_auth_tag_len_ipsec
                               hash_alg))
                      then Some iMB_ERR_JOB_AUTH_TAG_LEN
                      else if N.eqb j.jv_auth_tag_output N0
                           then Some iMB_ERR_JOB_NULL_AUTH
                           else None

(** val is_job_invalid_sw2_IMB_AUTH_KASUMI_UIA1 :
    job_view -> n -> n -> n -> n -> n option **)

let is_job_invalid_sw2_IMB_AUTH_KASUMI_UIA1 j _ hash_alg _ _ =
  if N.eqb j.jv_src N0
  then Some iMB_ERR_JOB_NULL_SRC
  else if (||) (N.ltb j.jv_msg_len_to_hash (Npos (XI (XO (XO XH)))))
            (N.ltb (Npos (XO (XO (XI (XO (XO (XO (XI (XI (XI (XO (XO
              XH)))))))))))) j.jv_msg_len_to_hash)
       then Some iMB_ERR_JOB_AUTH_LEN
       else if N.eqb j.jv_u0 N0
            then Some iMB_ERR_JOB_NULL_KEY
            else if negb
                      (N.eqb j.jv_auth_tag_output_len
                        (nth_N is_job_invalid_tab_auth_tag_len_ipsec hash_alg))
                 then Some iMB_ERR_JOB_AUTH_TAG_LEN
                 else if N.eqb j.jv_auth_tag_output N0
                      then Some iMB_ERR_JOB_NULL_AUTH
                      else None

(** val is_job_invalid_sw2_IMB_AUTH_POLY1305 :
    job_view -> n -> n -> n -> n -> n option **)

let is_job_invalid_sw2_IMB_AUTH_POLY1305 j _ hash_alg _ _ =
  if N.eqb j.jv_src N0
  then Some iMB_ERR_JOB_NULL_SRC
  else if N.eqb j.jv_u0 N0
       then Some iMB_ERR_JOB_NULL_AUTH_KEY
       else if N.eqb j.jv_auth_tag_output N0
            then Some iMB_ERR_JOB_NULL_AUTH
            else if negb
                      (N.eqb j.jv_auth_tag_output_len
                        (nth_N is_job_invalid_tab_auth_tag_len_ipsec hash_alg))
                 then Some iMB_ERR_JOB_AUTH_TAG_LEN
                 else None

(** val is_job_invalid_sw2_IMB_AUTH_CHACHA20_POLY1305 :
    job_view -> n -> n -> n -> n -> n option **)

let is_job_invalid_sw2_IMB_AUTH_CHACHA20_POLY1305 j cipher_mode hash_alg _ _ =
  if (&&) (negb (N.eqb j.jv_msg_len_to_hash N0)) (N.eqb j.jv_src N0)
  then Some iMB_ERR_JOB_NULL_SRC
  else if (&&) (negb (N.eqb j.jv_msg_len_to_hash N0)) (N.eqb j.jv_dst N0)
       then Some iMB_ERR_JOB_NULL_DST
       else if negb (N.eqb cipher_mode iMB_CIPHER_CHACHA20_POLY1305)
            then Some iMB_ERR_CIPH_MODE
            else if (&&) (N.eqb j.jv_u0 N0) (N.ltb N0 j.jv_u1)
                 then Some iMB_ERR_JOB_NULL_AAD
                 else if N.eqb j.jv_auth_tag_output N0
                      then Some iMB_ERR_JOB_NULL_AUTH
                      else if negb
                                (N.eqb j.jv_auth_tag_output_len
                                  (nth_N
                                    is_job_invalid_tab_auth_tag_len_ipsec
                                    hash_alg))
                           then Some iMB_ERR_JOB_AUTH_TAG_LEN
                           else None

(** val is_job_invalid_sw2_IMB_AUTH_CHACHA20_POLY1305_SGL :
    job_view -> n -> n -> n -> n -> n option **)

let is_job_invalid_sw2_IMB_AUTH_CHACHA20_POLY1305_SGL j cipher_mode hash_alg _ _ =
  if (&&) (negb (N.eqb j.jv_msg_len_to_hash N0)) (N.eqb j.jv_src N0)
  then Some iMB_ERR_JOB_NULL_SRC
  else if (&&) (negb (N.eqb j.jv_msg_len_to_hash N0)) (N.eqb j.jv_dst N0)
       then Some iMB_ERR_JOB_NULL_DST
       else if negb (N.eqb cipher_mode iMB_CIPHER_CHACHA20_POLY1305_SGL)
            then Some iMB_ERR_CIPH_MODE
            else if (&&) (N.eqb j.jv_u0 N0) (N.ltb N0 j.jv_u1)
                 then Some iMB_ERR_JOB_NULL_AAD
                 else if N.eqb j.jv_auth_tag_output N0
                      then Some iMB_ERR_JOB_NULL_AUTH
                      else if negb
                                (N.eqb j.jv_auth_tag_output_len
                                  (nth_N
                                    is_job_invalid_tab_auth_tag_len_ipsec
                                    hash_alg))
                           then Some iMB_ERR_JOB_AUTH_TAG_LEN
                           else if N.eqb j.jv_u2 N0
                                then Some iMB_ERR_JOB_NULL_SGL_CTX
                                else None

(** val is_job_invalid_sw2_IMB_AUTH_SNOW_V_AEAD :
    job_view -> n -> n -> n -> n -> n option **)

let is_job_invalid_sw2_IMB_AUTH_SNOW_V_AEAD j cipher_mode hash_alg _ _ =
  if (&&) (N.ltb N0 j.jv_u1) (N.eqb j.jv_u0 N0)
  then Some iMB_ERR_JOB_NULL_AAD
  else if N.eqb j.jv_auth_tag_output N0
       then Some iMB_ERR_JOB_NULL_AUTH
       else if negb
                 (N.eqb j.jv_auth_tag_output_len
                   (nth_N is_job_invalid_tab_auth_tag_len_ipsec hash_alg))
            then Some iMB_ERR_JOB_AUTH_TAG_LEN
            else if negb (N.eqb cipher_mode iMB_CIPHER_SNOW_V_AEAD)
                 then Some iMB_ERR_CIPH_MODE
                 else None

(** val is_job_invalid_sw2_IMB_AUTH_SM3 :
    job_view -> n -> n -> n -> n -> n option **)

let is_job_invalid_sw2_IMB_AUTH_SM3 j _ _ _ _ =
  if (||) (N.eqb j.jv_auth_tag_output_len N0)
       (N.ltb (Npos (XO (XO (XO (XO (XO XH)))))) j.jv_auth_tag_output_len)
  then Some iMB_ERR_JOB_AUTH_TAG_LEN
  else if N.eqb j.jv_src N0
       then Some iMB_ERR_JOB_NULL_SRC
       else if N.eqb j.jv_auth_tag_output N0
            then Some iMB_ERR_JOB_NULL_AUTH
            else None

(** val is_job_invalid_sw2_IMB_AUTH_HMAC_SM3 :
    job_view -> n -> n -> n -> n -> n option **)

let is_job_invalid_sw2_IMB_AUTH_HMAC_SM3 j cipher_mode hash_alg cipher_direction key_len_in_bytes =
  if N.eqb j.jv_u0 N0
  then Some iMB_ERR_JOB_NULL_HMAC_IPAD
  else if N.eqb j.jv_u1 N0
       then Some iMB_ERR_JOB_NULL_HMAC_OPAD
       else if N.eqb j.jv_msg_len_to_hash N0
            then Some iMB_ERR_JOB_AUTH_LEN
            else is_job_invalid_sw2_IMB_AUTH_SM3 j cipher_mode hash_alg
                   cipher_direction key_len_in_bytes

(** val is_job_invalid_sw2_IMB_AUTH_SM4_GCM :
    job_view -> n -> n -> n -> n -> n option **)

let is_job_invalid_sw2_IMB_AUTH_SM4_GCM j cipher_mode _ _ _ =
  if (||) (N.ltb j.jv_auth_tag_output_len (Npos XH))
       (N.ltb (Npos (XO (XO (XO (XO XH))))) j.jv_auth_tag_output_len)
  then Some iMB_ERR_JOB_AUTH_TAG_LEN
  else if (&&) (N.ltb N0 j.jv_u1) (N.eqb j.jv_u0 N0)
       then Some iMB_ERR_JOB_NULL_AAD
       else if negb (N.eqb cipher_mode iMB_CIPHER_SM4_GCM)
            then Some iMB_ERR_CIPH_MODE
            else if N.eqb j.jv_auth_tag_output N0
                 then Some iMB_ERR_JOB_NULL_AUTH
                 else None

(** val is_job_invalid_sw2_default :
    job_view -> n -> n -> n -> n -> n option **)

let is_job_invalid_sw2_default _ _ _ _ _ =
  Some iMB_ERR_HASH_ALGO

(** val is_job_invalid_sw2 : job_view -> n -> n -> n -> n -> n option **)

let is_job_invalid_sw2 j cipher_mode hash_alg cipher_direction key_len_in_bytes =
  if (||)
       ((||)
         ((||)
           ((||)
             ((||) (N.eqb hash_alg iMB_AUTH_HMAC_SHA_1)
               (N.eqb hash_alg iMB_AUTH_MD5))
             (N.eqb hash_alg iMB_AUTH_HMAC_SHA_224))
           (N.eqb hash_alg iMB_AUTH_HMAC_SHA_256))
         (N.eqb hash_alg iMB_AUTH_HMAC_SHA_384))
       (N.eqb hash_alg iMB_AUTH_HMAC_SHA_512)
  then is_job_invalid_sw2_IMB_AUTH_HMAC_SHA_1 j cipher_mode hash_alg
         cipher_direction key_len_in_bytes
  else if N.eqb hash_alg iMB_AUTH_AES_XCBC
       then is_job_invalid_sw2_IMB_AUTH_AES_XCBC j cipher_mode hash_alg
              cipher_direction key_len_in_bytes
       else if N.eqb hash_alg iMB_AUTH_NULL
            then is_job_invalid_sw2_IMB_AUTH_NULL j cipher_mode hash_alg
                   cipher_direction key_len_in_bytes
            else if (||)
                      ((||)
                        ((||)
                          ((||)
                            ((||)
                              ((||)
                                ((||)
                                  ((||)
                                    ((||)
                                      ((||)
                                        ((||)
                                          (N.eqb hash_alg
                                            iMB_AUTH_CRC32_ETHERNET_FCS)
                                          (N.eqb hash_alg iMB_AUTH_CRC32_SCTP))
                                        (N.eqb hash_alg
                                          iMB_AUTH_CRC32_WIMAX_OFDMA_DATA))
                                      (N.eqb hash_alg iMB_AUTH_CRC24_LTE_A))
                                    (N.eqb hash_alg iMB_AUTH_CRC24_LTE_B))
                                  (N.eqb hash_alg iMB_AUTH_CRC16_X25))
                                (N.eqb hash_alg iMB_AUTH_CRC16_FP_DATA))
                              (N.eqb hash_alg iMB_AUTH_CRC11_FP_HEADER))
                            (N.eqb hash_alg iMB_AUTH_CRC10_IUUP_DATA))
                          (N.eqb hash_alg iMB_AUTH_CRC8_WIMAX_OFDMA_HCS))
                        (N.eqb hash_alg iMB_AUTH_CRC7_FP_HEADER))
                      (N.eqb hash_alg iMB_AUTH_CRC6_IUUP_HEADER)
                 then is_job_invalid_sw2_IMB_AUTH_CRC32_ETHERNET_FCS j
                        cipher_mode hash_alg cipher_direction key_len_in_bytes
                 else if N.eqb hash_alg iMB_AUTH_AES_GMAC
                      then is_job_invalid_sw2_IMB_AUTH_AES_GMAC j cipher_mode
                             hash_alg cipher_direction key_len_in_bytes
                      else if N.eqb hash_alg iMB_AUTH_GCM_SGL
                           then is_job_invalid_sw2_IMB_AUTH_GCM_SGL j
                                  cipher_mode hash_alg cipher_direction
                                  key_len_in_bytes
                           else if (||)
                                     ((||)
                                       (N.eqb hash_alg iMB_AUTH_AES_GMAC_128)
                                       (N.eqb hash_alg iMB_AUTH_AES_GMAC_192))
                                     (N.eqb hash_alg iMB_AUTH_AES_GMAC_256)
                                then is_job_invalid_sw2_IMB_AUTH_AES_GMAC_128
                                       j cipher_mode hash_alg
                                       cipher_direction key_len_in_bytes
                                else if N.eqb hash_alg iMB_AUTH_GHASH
                                     then is_job_invalid_sw2_IMB_AUTH_GHASH j
                                            cipher_mode hash_alg
                                            cipher_direction key_len_in_bytes
                                     else if N.eqb hash_alg iMB_AUTH_CUSTOM
                                          then is_job_invalid_sw2_IMB_AUTH_CUSTOM
                                                 j cipher_mode hash_alg
                                                 cipher_direction
                                                 key_len_in_bytes
                                          else if N.eqb hash_alg
                                                    iMB_AUTH_AES_CCM
                                               then is_job_invalid_sw2_IMB_AUTH_AES_CCM
                                                      j cipher_mode hash_alg
                                                      cipher_direction
                                                      key_len_in_bytes
                                               else if (||)
                                                         ((||)
                                                           (N.eqb hash_alg
                                                             iMB_AUTH_AES_CMAC)
                                                           (N.eqb hash_alg
                                                             iMB_AUTH_AES_CMAC_BITLEN))
                                                         (N.eqb hash_alg
                                                           iMB_AUTH_AES_CMAC_256)
                                                    then is_job_invalid_sw2_IMB_AUTH_AES_CMAC
                                                           j cipher_mode
                                                           hash_alg
                                                           cipher_direction
                                                           key_len_in_bytes
                                                    else if (||)
                                                              ((||)
                                                                ((||)
                                                                  ((||)
                                                                    (N.eqb
                                                                    hash_alg
                                                                    iMB_AUTH_SHA_1)
                                                                    (N.eqb
                                                                    hash_alg
                                                                    iMB_AUTH_SHA_224))
                                                                  (N.eqb
                                                                    hash_alg
                                                                    iMB_AUTH_SHA_256))
                                                                (N.eqb
                                                                  hash_alg
                                                                  iMB_AUTH_SHA_384))
                                                              (N.eqb hash_alg
                                                                iMB_AUTH_SHA_512)
                                                         then is_job_invalid_sw2_IMB_AUTH_SHA_1
                                                                j cipher_mode
                                                                hash_alg
                                                                cipher_direction
                                                                key_len_in_bytes
                                                         else if N.eqb
                                                                   hash_alg
                                                                   iMB_AUTH_PON_CRC_BIP
                                                              then is_job_invalid_sw2_IMB_AUTH_PON_CRC_BIP
                                                                    j
                                                                    cipher_mode
                                                                    hash_alg
                                                                    cipher_direction
                                                                    key_len_in_bytes
                                                              else if 
                                                                    N.eqb
                                                                    hash_alg
                                                                    iMB_AUTH_ZUC_EIA3_BITLEN
                                                                   then 
                                                                    is_job_invalid_sw2_IMB_AUTH_ZUC_EIA3_BITLEN
                                                                    j
                                                                    cipher_mode
                                                                    hash_alg
                                                                    cipher_direction
                                                                    key_len_in_bytes
                                                                   else 
                                                                    if 
                                                                    N.eqb
                                                                    hash_alg
                                                                    iMB_AUTH_ZUC256_EIA3_BITLEN
                                                                    then 
                                                                    is_job_invalid_sw2_IMB_AUTH_ZUC256_EIA3_BITLEN
                                                                    j
                                                                    cipher_mode
                                                                    hash_alg
                                                                    cipher_direction
                                                                    key_len_in_bytes
                                                                    else 
                                                                    if 
                                                                    N.eqb
                                                                    hash_alg
                                                                    iMB_AUTH_DOCSIS_CRC32
                                                                    then 
                                                                    is_job_invalid_sw2_IMB_AUTH_DOCSIS_CRC32
                                                                    j
                                                                    cipher_mode
                                                                    hash_alg
                                                                    cipher_direction
                                                                    key_len_in_bytes
                                                                    else 
                                                                    if 
                                                                    N.eqb
                                                                    hash_alg
                                                                    iMB_AUTH_SNOW3G_UIA2_BITLEN
                                                                    then 
                                                                    is_job_invalid_sw2_IMB_AUTH_SNOW3G_UIA2_BITLEN
                                                                    j
                                                                    cipher_mode
                                                                    hash_alg
                                                                    cipher_direction
                                                                    key_len_in_bytes
                                                                    else 
                                                                    if 
                                                                    N.eqb
                                                                    hash_alg
                                                                    iMB_AUTH_KASUMI_UIA1
                                                                    then 
                                                                    is_job_invalid_sw2_IMB_AUTH_KASUMI_UIA1
                                                                    j
                                                                    cipher_mode
                                                                    hash_alg
                                                                    cipher_direction
                                                                    key_len_in_bytes
                                                                    else 
                                                                    if 
                                                                    N.eqb
                                                                    hash_alg
                                                                    iMB_AUTH_POLY1305
                                                                    then 
                                                                    is_job_invalid_sw2_IMB_AUTH_POLY1305
                                                                    j
                                                                    cipher_mode
                                                                    hash_alg
                                                                    cipher_direction
                                                                    key_len_in_bytes
                                                                    else 
                                                                    if 
                                                                    N.eqb
                                                                    hash_alg
                                                                    iMB_AUTH_CHACHA20_POLY1305
                                                                    then 
                                                                    is_job_invalid_sw2_IMB_AUTH_CHACHA20_POLY1305
                                                                    j
                                                                    cipher_mode
                                                                    hash_alg
                                                                    cipher_direction
                                                                    key_len_in_bytes
                                                                    else 
                                                                    if 
                                                                    N.eqb
                                                                    hash_alg
                                                                    iMB_AUTH_CHACHA20_POLY1305_SGL
                                                                    then 
                                                                    is_job_invalid_sw2_IMB_AUTH_CHACHA20_POLY1305_SGL
                                                                    j
                                                                    cipher_mode
                                                                    hash_alg
                                                                    cipher_direction
                                                                    key_len_in_bytes
                                                                    else 
                                                                    if 
                                                                    N.eqb
                                                                    hash_alg
                                                                    iMB_AUTH_SNOW_V_AEAD
                                                                    then 
                                                                    is_job_invalid_sw2_IMB_AUTH_SNOW_V_AEAD
                                                                    j
                                                                    cipher_mode
                                                                    hash_alg
                                                                    cipher_direction
                                                                    key_len_in_bytes
                                                                    else 
                                                                    if 
                                                                    N.eqb
                                                                    hash_alg
                                                                    iMB_AUTH_HMAC_SM3
                                                                    then 
                                                                    is_job_invalid_sw2_IMB_AUTH_HMAC_SM3
                                                                    j
                                                                    cipher_mode
                                                                    hash_alg
                                                                    cipher_direction
                                                                    key_len_in_bytes
                                                                    else 
                                                                    if 
                                                                    N.eqb
                                                                    hash_alg
                                                                    iMB_AUTH_SM3
                                                                    then 
                                                                    is_job_invalid_sw2_IMB_AUTH_SM3
                                                                    j
                                                                    cipher_mode
                                                                    hash_alg
                                                                    cipher_direction
                                                                    key_len_in_bytes
                                                                    else 
                                                                    if 
                                                                    N.eqb
                                                                    hash_alg
                                                                    iMB_AUTH_SM4_GCM
                                                                    then 
                                                                    is_job_invalid_sw2_IMB_AUTH_SM4_GCM
                                                                    j
                                                                    cipher_mode
                                                                    hash_alg
                                                                    cipher_direction
                                                                    key_len_in_bytes
                                                                    else 
                                                                    is_job_invalid_sw2_default
                                                                    j
                                                                    cipher_mode
                                                                    hash_alg
                                                                    cipher_direction
                                                                    key_len_in_bytes

(** val is_job_invalid_fn : job_view -> n -> n -> n -> n -> n option **)

let is_job_invalid_fn j cipher_mode hash_alg cipher_direction key_len_in_bytes =
  oseq
    (if (&&)
          ((&&) (negb (N.eqb cipher_direction iMB_DIR_DECRYPT))
            (negb (N.eqb cipher_direction iMB_DIR_ENCRYPT)))
          (negb (N.eqb cipher_mode iMB_CIPHER_NULL))
     then Some iMB_ERR_JOB_CIPH_DIR
     else None)
    (oseq
      (is_job_invalid_sw1 j cipher_mode hash_alg cipher_direction
        key_len_in_bytes)
      (oseq
        (is_job_invalid_sw2 j cipher_mode hash_alg cipher_direction
          key_len_in_bytes) None))

(** val is_job_invalid : job_view -> n option **)

let is_job_invalid j =
  is_job_invalid_fn j j.jv_cipher_mode j.jv_hash_alg j.jv_cipher_direction
    (w32 j.jv_key_len_in_bytes)

(** val is_job_invalid_light : job_view -> n option **)

let is_job_invalid_light j =
  is_job_invalid_light_fn j j.jv_cipher_mode j.jv_hash_alg
    j.jv_cipher_direction (w32 j.jv_key_len_in_bytes)

type cond =
| NonNull of (job_view -> n)
| ValIn of (job_view -> n) * n list
| ValBetween of (job_view -> n) * n * n
| ValAtLeast of (job_view -> n) * n
| MultipleOf of (job_view -> n) * n
| SameAs of (job_view -> n) * (job_view -> n)
| Neg of cond
| Both of cond * cond
| Either of cond * cond
| When of cond * cond
| PonInPlace
| PonPliFits
| DocsisLenFits
| DocsisOffsetFits
| SglArrayNonNull
| SglSegInNonNull
| SglSegOutNonNull
| SglTotalAtMost of n

(** val pon_pli : job_view -> n **)

let pon_pli j =
  w16
    (N.shiftr (bswap64 j.jv_mem_xgem_hdr) (Npos (XO (XI (XO (XO (XI XH)))))))

(** val pon_payload_len : job_view -> n **)

let pon_payload_len j =
  if N.eqb j.jv_msg_len_to_cipher N0
  then N.sub j.jv_msg_len_to_hash (Npos (XO (XO (XO XH))))
  else j.jv_msg_len_to_cipher

(** val seg_in_ok : sgl_seg -> bool **)

let seg_in_ok s =
  (||) (N.eqb s.seg_len N0) (negb (N.eqb s.seg_in N0))

(** val seg_out_ok : sgl_seg -> bool **)

let seg_out_ok s =
  (||) (N.eqb s.seg_len N0) (negb (N.eqb s.seg_out N0))

(** val sgl_total : sgl_seg list -> n **)

let sgl_total segs =
  fold_right (fun s acc -> N.add s.seg_len acc) N0 segs

(** val holds : cond -> job_view -> bool **)

let rec holds c j =
  match c with
  | NonNull f -> negb (N.eqb (f j) N0)
  | ValIn (f, vs) -> existsb (N.eqb (f j)) vs
  | ValBetween (f, lo, hi) -> (&&) (N.leb lo (f j)) (N.leb (f j) hi)
  | ValAtLeast (f, lo) -> N.leb lo (f j)
  | MultipleOf (f, n0) -> N.eqb (N.modulo (f j) n0) N0
  | SameAs (f, g) -> N.eqb (f j) (g j)
  | Neg a -> negb (holds a j)
  | Both (a, b) -> (&&) (holds a j) (holds b j)
  | Either (a, b) -> (||) (holds a j) (holds b j)
  | When (g, a) -> (||) (negb (holds g j)) (holds a j)
  | PonInPlace -> N.eqb j.jv_dst (add64 j.jv_src j.jv_cipher_start_src_offset)
  | PonPliFits ->
    (||) (N.leb (pon_pli j) (Npos (XO (XO XH))))
      ((&&) (N.leb (Npos (XO (XO XH))) (pon_payload_len j))
        (N.leb (N.sub (pon_pli j) (Npos (XO (XO XH))))
          (N.sub (pon_payload_len j) (Npos (XO (XO XH))))))
  | DocsisLenFits ->
    N.leb (N.add j.jv_msg_len_to_cipher (Npos (XO (XO (XO XH)))))
      j.jv_msg_len_to_hash
  | DocsisOffsetFits ->
    N.leb (N.add j.jv_hash_start_src_offset (Npos (XO (XO (XI XH)))))
      j.jv_cipher_start_src_offset
  | SglArrayNonNull ->
    (||) (N.eqb (jv_num_sgl_io_segs j) N0)
      (negb (N.eqb (jv_sgl_io_segs j) N0))
  | SglSegInNonNull -> forallb seg_in_ok j.jv_sgl_segs
  | SglSegOutNonNull -> forallb seg_out_ok j.jv_sgl_segs
  | SglTotalAtMost m -> N.leb (sgl_total j.jv_sgl_segs) m

type rule = { r_name : string; r_cond : cond; r_err : n }

(** val rules_ok : rule list -> job_view -> bool **)

let rules_ok rs j =
  forallb (fun r -> holds r.r_cond j) rs

(** val violations_of : rule list -> job_view -> n list **)

let violations_of rs j =
  flat_map (fun r -> if holds r.r_cond j then [] else r.r_err :: []) rs

(** val keyLenIn : n list -> cond **)

let keyLenIn vs =
  ValIn ((fun j -> j.jv_key_len_in_bytes), vs)

(** val ivLenIn : n list -> cond **)

let ivLenIn vs =
  ValIn ((fun j -> j.jv_iv_len_in_bytes), vs)

(** val ivLenBetween : n -> n -> cond **)

let ivLenBetween lo hi =
  ValBetween ((fun j -> j.jv_iv_len_in_bytes), lo, hi)

(** val tagLenIn : n list -> cond **)

let tagLenIn vs =
  ValIn ((fun j -> j.jv_auth_tag_output_len), vs)

(** val tagLenBetween : n -> n -> cond **)

let tagLenBetween lo hi =
  ValBetween ((fun j -> j.jv_auth_tag_output_len), lo, hi)

(** val cipherLenBetween : n -> n -> cond **)

let cipherLenBetween lo hi =
  ValBetween ((fun j -> j.jv_msg_len_to_cipher), lo, hi)

(** val cipherLenMultipleOf : n -> cond **)

let cipherLenMultipleOf n0 =
  MultipleOf ((fun j -> j.jv_msg_len_to_cipher), n0)

(** val hashLenBetween : n -> n -> cond **)

let hashLenBetween lo hi =
  ValBetween ((fun j -> j.jv_msg_len_to_hash), lo, hi)

(** val pairedWithHash : n -> cond **)

let pairedWithHash h =
  ValIn ((fun j -> j.jv_hash_alg), (h :: []))

(** val pairedWithCipher : n -> cond **)

let pairedWithCipher c =
  ValIn ((fun j -> j.jv_cipher_mode), (c :: []))

(** val chainOrderIs : n -> cond **)

let chainOrderIs o =
  ValIn ((fun j -> j.jv_chain_order), (o :: []))

(** val sglStateIn : n list -> cond **)

let sglStateIn vs =
  ValIn ((fun j -> j.jv_sgl_state), vs)

(** val encrypting : cond **)

let encrypting =
  ValIn ((fun j -> j.jv_cipher_direction), (iMB_DIR_ENCRYPT :: []))

(** val decrypting : cond **)

let decrypting =
  ValIn ((fun j -> j.jv_cipher_direction), (iMB_DIR_DECRYPT :: []))

(** val cipherLenNonZero : cond **)

let cipherLenNonZero =
  Neg (ValIn ((fun j -> j.jv_msg_len_to_cipher), (N0 :: [])))

(** val hashLenNonZero : cond **)

let hashLenNonZero =
  Neg (ValIn ((fun j -> j.jv_msg_len_to_hash), (N0 :: [])))

(** val hasAad : cond **)

let hasAad =
  Neg (ValIn ((fun j -> j.jv_u1), (N0 :: [])))

(** val mB_MAX_LEN16 : n **)

let mB_MAX_LEN16 =
  Npos (XO (XI (XI (XI (XI (XI (XI (XI (XI (XI (XI (XI (XI (XI (XI
    XH)))))))))))))))

(** val r_src : rule **)

let r_src =
  { r_name = (String ((Ascii (true, true, false, false, true, true, true,
    false)), (String ((Ascii (false, true, false, false, true, true, true,
    false)), (String ((Ascii (true, true, false, false, false, true, true,
    false)), (String ((Ascii (false, false, false, false, false, true, false,
    false)), (String ((Ascii (true, false, false, false, false, true, false,
    false)), (String ((Ascii (true, false, true, true, true, true, false,
    false)), (String ((Ascii (false, false, false, false, false, true, false,
    false)), (String ((Ascii (false, true, true, true, false, false, true,
    false)), (String ((Ascii (true, false, true, false, true, false, true,
    false)), (String ((Ascii (false, false, true, true, false, false, true,
    false)), (String ((Ascii (false, false, true, true, false, false, true,
    false)), EmptyString)))))))))))))))))))))); r_cond = (NonNull (fun j ->
    j.jv_src)); r_err = iMB_ERR_JOB_NULL_SRC }

(** val r_dst : rule **)

let r_dst =
  { r_name = (String ((Ascii (false, false, true, false, false, true, true,
    false)), (String ((Ascii (true, true, false, false, true, true, true,
    false)), (String ((Ascii (false, false, true, false, true, true, true,
    false)), (String ((Ascii (false, false, false, false, false, true, false,
    false)), (String ((Ascii (true, false, false, false, false, true, false,
    false)), (String ((Ascii (true, false, true, true, true, true, false,
    false)), (String ((Ascii (false, false, false, false, false, true, false,
    false)), (String ((Ascii (false, true, true, true, false, false, true,
    false)), (String ((Ascii (true, false, true, false, true, false, true,
    false)), (String ((Ascii (false, false, true, true, false, false, true,
    false)), (String ((Ascii (false, false, true, true, false, false, true,
    false)), EmptyString)))))))))))))))))))))); r_cond = (NonNull (fun j ->
    j.jv_dst)); r_err = iMB_ERR_JOB_NULL_DST }

(** val r_iv : rule **)

let r_iv =
  { r_name = (String ((Ascii (true, false, false, true, false, true, true,
    false)), (String ((Ascii (false, true, true, false, true, true, true,
    false)), (String ((Ascii (false, false, false, false, false, true, false,
    false)), (String ((Ascii (true, false, false, false, false, true, false,
    false)), (String ((Ascii (true, false, true, true, true, true, false,
    false)), (String ((Ascii (false, false, false, false, false, true, false,
    false)), (String ((Ascii (false, true, true, true, false, false, true,
    false)), (String ((Ascii (true, false, true, false, true, false, true,
    false)), (String ((Ascii (false, false, true, true, false, false, true,
    false)), (String ((Ascii (false, false, true, true, false, false, true,
    false)), EmptyString)))))))))))))))))))); r_cond = (NonNull (fun j ->
    j.jv_iv)); r_err = iMB_ERR_JOB_NULL_IV }

(** val r_src_if_len : rule **)

let r_src_if_len =
  { r_name = (String ((Ascii (true, true, false, false, true, true, true,
    false)), (String ((Ascii (false, true, false, false, true, true, true,
    false)), (String ((Ascii (true, true, false, false, false, true, true,
    false)), (String ((Ascii (false, false, false, false, false, true, false,
    false)), (String ((Ascii (true, false, false, false, false, true, false,
    false)), (String ((Ascii (true, false, true, true, true, true, false,
    false)), (String ((Ascii (false, false, false, false, false, true, false,
    false)), (String ((Ascii (false, true, true, true, false, false, true,
    false)), (String ((Ascii (true, false, true, false, true, false, true,
    false)), (String ((Ascii (false, false, true, true, false, false, true,
    false)), (String ((Ascii (false, false, true, true, false, false, true,
    false)), (String ((Ascii (false, false, false, false, false, true, false,
    false)), (String ((Ascii (true, true, true, false, true, true, true,
    false)), (String ((Ascii (false, false, false, true, false, true, true,
    false)), (String ((Ascii (true, false, true, false, false, true, true,
    false)), (String ((Ascii (false, true, true, true, false, true, true,
    false)), (String ((Ascii (false, false, false, false, false, true, false,
    false)), (String ((Ascii (false, false, true, false, true, true, true,
    false)), (String ((Ascii (false, false, false, true, false, true, true,
    false)), (String ((Ascii (true, false, true, false, false, true, true,
    false)), (String ((Ascii (false, true, false, false, true, true, true,
    false)), (String ((Ascii (true, false, true, false, false, true, true,
    false)), (String ((Ascii (false, false, false, false, false, true, false,
    false)), (String ((Ascii (true, false, false, true, false, true, true,
    false)), (String ((Ascii (true, true, false, false, true, true, true,
    false)), (String ((Ascii (false, false, false, false, false, true, false,
    false)), (String ((Ascii (false, false, true, false, false, true, true,
    false)), (String ((Ascii (true, false, false, false, false, true, true,
    false)), (String ((Ascii (false, false, true, false, true, true, true,
    false)), (String ((Ascii (true, false, false, false, false, true, true,
    false)), (String ((Ascii (false, false, false, false, false, true, false,
    false)), (String ((Ascii (false, false, true, false, true, true, true,
    false)), (String ((Ascii (true, true, true, true, false, true, true,
    false)), (String ((Ascii (false, false, false, false, false, true, false,
    false)), (String ((Ascii (true, true, false, false, false, true, true,
    false)), (String ((Ascii (true, false, false, true, false, true, true,
    false)), (String ((Ascii (false, false, false, false, true, true, true,
    false)), (String ((Ascii (false, false, false, true, false, true, true,
    false)), (String ((Ascii (true, false, true, false, false, true, true,
    false)), (String ((Ascii (false, true, false, false, true, true, true,
    false)),
    EmptyString))))))))))))))))))))))))))))))))))))))))))))))))))))))))))))))))))))))))))))))));
    r_cond = (When (cipherLenNonZero, (NonNull (fun j -> j.jv_src))));
    r_err = iMB_ERR_JOB_NULL_SRC }

(** val r_dst_if_len : rule **)

let r_dst_if_len =
  { r_name = (String ((Ascii (false, false, true, false, false, true, true,
    false)), (String ((Ascii (true, true, false, false, true, true, true,
    false)), (String ((Ascii (false, false, true, false, true, true, true,
    false)), (String ((Ascii (false, false, false, false, false, true, false,
    false)), (String ((Ascii (true, false, false, false, false, true, false,
    false)), (String ((Ascii (true, false, true, true, true, true, false,
    false)), (String ((Ascii (false, false, false, false, false, true, false,
    false)), (String ((Ascii (false, true, true, true, false, false, true,
    false)), (String ((Ascii (true, false, true, false, true, false, true,
    false)), (String ((Ascii (false, false, true, true, false, false, true,
    false)), (String ((Ascii (false, false, true, true, false, false, true,
    false)), (String ((Ascii (false, false, false, false, false, true, false,
    false)), (String ((Ascii (true, true, true, false, true, true, true,
    false)), (String ((Ascii (false, false, false, true, false, true, true,
    false)), (String ((Ascii (true, false, true, false, false, true, true,
    false)), (String ((Ascii (false, true, true, true, false, true, true,
    false)), (String ((Ascii (false, false, false, false, false, true, false,
    false)), (String ((Ascii (false, false, true, false, true, true, true,
    false)), (String ((Ascii (false, false, false, true, false, true, true,
    false)), (String ((Ascii (true, false, true, false, false, true, true,
    false)), (String ((Ascii (false, true, false, false, true, true, true,
    false)), (String ((Ascii (true, false, true, false, false, true, true,
    false)), (String ((Ascii (false, false, false, false, false, true, false,
    false)), (String ((Ascii (true, false, false, true, false, true, true,
    false)), (String ((Ascii (true, true, false, false, true, true, true,
    false)), (String ((Ascii (false, false, false, false, false, true, false,
    false)), (String ((Ascii (false, false, true, false, false, true, true,
    false)), (String ((Ascii (true, false, false, false, false, true, true,
    false)), (String ((Ascii (false, false, true, false, true, true, true,
    false)), (String ((Ascii (true, false, false, false, false, true, true,
    false)), (String ((Ascii (false, false, false, false, false, true, false,
    false)), (String ((Ascii (false, false, true, false, true, true, true,
    false)), (String ((Ascii (true, true, true, true, false, true, true,
    false)), (String ((Ascii (false, false, false, false, false, true, false,
    false)), (String ((Ascii (true, true, false, false, false, true, true,
    false)), (String ((Ascii (true, false, false, true, false, true, true,
    false)), (String ((Ascii (false, false, false, false, true, true, true,
    false)), (String ((Ascii (false, false, false, true, false, true, true,
    false)), (String ((Ascii (true, false, true, false, false, true, true,
    false)), (String ((Ascii (false, true, false, false, true, true, true,
    false)),
    EmptyString))))))))))))))))))))))))))))))))))))))))))))))))))))))))))))))))))))))))))))))));
    r_cond = (When (cipherLenNonZero, (NonNull (fun j -> j.jv_dst))));
    r_err = iMB_ERR_JOB_NULL_DST }

(** val r_enc_keys : rule **)

let r_enc_keys =
  { r_name = (String ((Ascii (true, false, true, false, false, true, true,
    false)), (String ((Ascii (false, true, true, true, false, true, true,
    false)), (String ((Ascii (true, true, false, false, false, true, true,
    false)), (String ((Ascii (true, true, true, true, true, false, true,
    false)), (String ((Ascii (true, true, false, true, false, true, true,
    false)), (String ((Ascii (true, false, true, false, false, true, true,
    false)), (String ((Ascii (true, false, false, true, true, true, true,
    false)), (String ((Ascii (true, true, false, false, true, true, true,
    false)), (String ((Ascii (false, false, false, false, false, true, false,
    false)), (String ((Ascii (true, false, false, false, false, true, false,
    false)), (String ((Ascii (true, false, true, true, true, true, false,
    false)), (String ((Ascii (false, false, false, false, false, true, false,
    false)), (String ((Ascii (false, true, true, true, false, false, true,
    false)), (String ((Ascii (true, false, true, false, true, false, true,
    false)), (String ((Ascii (false, false, true, true, false, false, true,
    false)), (String ((Ascii (false, false, true, true, false, false, true,
    false)), EmptyString)))))))))))))))))))))))))))))))); r_cond = (NonNull
    (fun j -> j.jv_enc_keys)); r_err = iMB_ERR_JOB_NULL_KEY }

(** val r_enc_keys_if_enc : rule **)

let r_enc_keys_if_enc =
  { r_name = (String ((Ascii (true, false, true, false, false, true, true,
    false)), (String ((Ascii (false, true, true, true, false, true, true,
    false)), (String ((Ascii (true, true, false, false, false, true, true,
    false)), (String ((Ascii (true, true, true, true, true, false, true,
    false)), (String ((Ascii (true, true, false, true, false, true, true,
    false)), (String ((Ascii (true, false, true, false, false, true, true,
    false)), (String ((Ascii (true, false, false, true, true, true, true,
    false)), (String ((Ascii (true, true, false, false, true, true, true,
    false)), (String ((Ascii (false, false, false, false, false, true, false,
    false)), (String ((Ascii (true, false, false, false, false, true, false,
    false)), (String ((Ascii (true, false, true, true, true, true, false,
    false)), (String ((Ascii (false, false, false, false, false, true, false,
    false)), (String ((Ascii (false, true, true, true, false, false, true,
    false)), (String ((Ascii (true, false, true, false, true, false, true,
    false)), (String ((Ascii (false, false, true, true, false, false, true,
    false)), (String ((Ascii (false, false, true, true, false, false, true,
    false)), (String ((Ascii (false, false, false, false, false, true, false,
    false)), (String ((Ascii (true, true, true, false, true, true, true,
    false)), (String ((Ascii (false, false, false, true, false, true, true,
    false)), (String ((Ascii (true, false, true, false, false, true, true,
    false)), (String ((Ascii (false, true, true, true, false, true, true,
    false)), (String ((Ascii (false, false, false, false, false, true, false,
    false)), (String ((Ascii (true, false, true, false, false, true, true,
    false)), (String ((Ascii (false, true, true, true, false, true, true,
    false)), (String ((Ascii (true, true, false, false, false, true, true,
    false)), (String ((Ascii (false, true, false, false, true, true, true,
    false)), (String ((Ascii (true, false, false, true, true, true, true,
    false)), (String ((Ascii (false, false, false, false, true, true, true,
    false)), (String ((Ascii (false, false, true, false, true, true, true,
    false)), (String ((Ascii (true, false, false, true, false, true, true,
    false)), (String ((Ascii (false, true, true, true, false, true, true,
    false)), (String ((Ascii (true, true, true, false, false, true, true,
    false)),
    EmptyString))))))))))))))))))))))))))))))))))))))))))))))))))))))))))))))));
    r_cond = (When (encrypting, (NonNull (fun j -> j.jv_enc_keys)))); r_err =
    iMB_ERR_JOB_NULL_KEY }

(** val r_dec_keys_if_dec : rule **)

let r_dec_keys_if_dec =
  { r_name = (String ((Ascii (false, false, true, false, false, true, true,
    false)), (String ((Ascii (true, false, true, false, false, true, true,
    false)), (String ((Ascii (true, true, false, false, false, true, true,
    false)), (String ((Ascii (true, true, true, true, true, false, true,
    false)), (String ((Ascii (true, true, false, true, false, true, true,
    false)), (String ((Ascii (true, false, true, false, false, true, true,
    false)), (String ((Ascii (true, false, false, true, true, true, true,
    false)), (String ((Ascii (true, true, false, false, true, true, true,
    false)), (String ((Ascii (false, false, false, false, false, true, false,
    false)), (String ((Ascii (true, false, false, false, false, true, false,
    false)), (String ((Ascii (true, false, true, true, true, true, false,
    false)), (String ((Ascii (false, false, false, false, false, true, false,
    false)), (String ((Ascii (false, true, true, true, false, false, true,
    false)), (String ((Ascii (true, false, true, false, true, false, true,
    false)), (String ((Ascii (false, false, true, true, false, false, true,
    false)), (String ((Ascii (false, false, true, true, false, false, true,
    false)), (String ((Ascii (false, false, false, false, false, true, false,
    false)), (String ((Ascii (true, true, true, false, true, true, true,
    false)), (String ((Ascii (false, false, false, true, false, true, true,
    false)), (String ((Ascii (true, false, true, false, false, true, true,
    false)), (String ((Ascii (false, true, true, true, false, true, true,
    false)), (String ((Ascii (false, false, false, false, false, true, false,
    false)), (String ((Ascii (false, false, true, false, false, true, true,
    false)), (String ((Ascii (true, false, true, false, false, true, true,
    false)), (String ((Ascii (true, true, false, false, false, true, true,
    false)), (String ((Ascii (false, true, false, false, true, true, true,
    false)), (String ((Ascii (true, false, false, true, true, true, true,
    false)), (String ((Ascii (false, false, false, false, true, true, true,
    false)), (String ((Ascii (false, false, true, false, true, true, true,
    false)), (String ((Ascii (true, false, false, true, false, true, true,
    false)), (String ((Ascii (false, true, true, true, false, true, true,
    false)), (String ((Ascii (true, true, true, false, false, true, true,
    false)),
    EmptyString))))))))))))))))))))))))))))))))))))))))))))))))))))))))))))))));
    r_cond = (When (decrypting, (NonNull (fun j -> j.jv_dec_keys)))); r_err =
    iMB_ERR_JOB_NULL_KEY }

(** val r_key_len : n list -> rule **)

let r_key_len vs =
  { r_name = (String ((Ascii (true, true, false, true, false, true, true,
    false)), (String ((Ascii (true, false, true, false, false, true, true,
    false)), (String ((Ascii (true, false, false, true, true, true, true,
    false)), (String ((Ascii (false, false, false, false, false, true, false,
    false)), (String ((Ascii (false, false, true, true, false, true, true,
    false)), (String ((Ascii (true, false, true, false, false, true, true,
    false)), (String ((Ascii (false, true, true, true, false, true, true,
    false)), (String ((Ascii (true, true, true, false, false, true, true,
    false)), (String ((Ascii (false, false, true, false, true, true, true,
    false)), (String ((Ascii (false, false, false, true, false, true, true,
    false)), (String ((Ascii (false, false, false, false, false, true, false,
    false)), (String ((Ascii (true, true, false, false, true, true, true,
    false)), (String ((Ascii (true, false, true, false, true, true, true,
    false)), (String ((Ascii (false, false, false, false, true, true, true,
    false)), (String ((Ascii (false, false, false, false, true, true, true,
    false)), (String ((Ascii (true, true, true, true, false, true, true,
    false)), (String ((Ascii (false, true, false, false, true, true, true,
    false)), (String ((Ascii (false, false, true, false, true, true, true,
    false)), (String ((Ascii (true, false, true, false, false, true, true,
    false)), (String ((Ascii (false, false, true, false, false, true, true,
    false)), EmptyString)))))))))))))))))))))))))))))))))))))))); r_cond =
    (keyLenIn vs); r_err = iMB_ERR_JOB_KEY_LEN }

(** val r_iv_len : n list -> rule **)

let r_iv_len vs =
  { r_name = (String ((Ascii (true, false, false, true, false, false, true,
    false)), (String ((Ascii (false, true, true, false, true, false, true,
    false)), (String ((Ascii (false, false, false, false, false, true, false,
    false)), (String ((Ascii (false, false, true, true, false, true, true,
    false)), (String ((Ascii (true, false, true, false, false, true, true,
    false)), (String ((Ascii (false, true, true, true, false, true, true,
    false)), (String ((Ascii (true, true, true, false, false, true, true,
    false)), (String ((Ascii (false, false, true, false, true, true, true,
    false)), (String ((Ascii (false, false, false, true, false, true, true,
    false)), (String ((Ascii (false, false, false, false, false, true, false,
    false)), (String ((Ascii (true, true, false, false, true, true, true,
    false)), (String ((Ascii (true, false, true, false, true, true, true,
    false)), (String ((Ascii (false, false, false, false, true, true, true,
    false)), (String ((Ascii (false, false, false, false, true, true, true,
    false)), (String ((Ascii (true, true, true, true, false, true, true,
    false)), (String ((Ascii (false, true, false, false, true, true, true,
    false)), (String ((Ascii (false, false, true, false, true, true, true,
    false)), (String ((Ascii (true, false, true, false, false, true, true,
    false)), (String ((Ascii (false, false, true, false, false, true, true,
    false)), EmptyString)))))))))))))))))))))))))))))))))))))); r_cond =
    (ivLenIn vs); r_err = iMB_ERR_JOB_IV_LEN }

(** val r_cipher_len_min : n -> rule **)

let r_cipher_len_min lo =
  { r_name = (String ((Ascii (true, true, false, false, false, true, true,
    false)), (String ((Ascii (true, false, false, true, false, true, true,
    false)), (String ((Ascii (false, false, false, false, true, true, true,
    false)), (String ((Ascii (false, false, false, true, false, true, true,
    false)), (String ((Ascii (true, false, true, false, false, true, true,
    false)), (String ((Ascii (false, true, false, false, true, true, true,
    false)), (String ((Ascii (false, false, false, false, false, true, false,
    false)), (String ((Ascii (false, false, true, true, false, true, true,
    false)), (String ((Ascii (true, false, true, false, false, true, true,
    false)), (String ((Ascii (false, true, true, true, false, true, true,
    false)), (String ((Ascii (true, true, true, false, false, true, true,
    false)), (String ((Ascii (false, false, true, false, true, true, true,
    false)), (String ((Ascii (false, false, false, true, false, true, true,
    false)), (String ((Ascii (false, false, false, false, false, true, false,
    false)), (String ((Ascii (false, true, true, true, false, true, true,
    false)), (String ((Ascii (true, true, true, true, false, true, true,
    false)), (String ((Ascii (false, false, true, false, true, true, true,
    false)), (String ((Ascii (false, false, false, false, false, true, false,
    false)), (String ((Ascii (false, true, false, false, false, true, true,
    false)), (String ((Ascii (true, false, true, false, false, true, true,
    false)), (String ((Ascii (false, false, true, true, false, true, true,
    false)), (String ((Ascii (true, true, true, true, false, true, true,
    false)), (String ((Ascii (true, true, true, false, true, true, true,
    false)), (String ((Ascii (false, false, false, false, false, true, false,
    false)), (String ((Ascii (false, false, true, false, true, true, true,
    false)), (String ((Ascii (false, false, false, true, false, true, true,
    false)), (String ((Ascii (true, false, true, false, false, true, true,
    false)), (String ((Ascii (false, false, false, false, false, true, false,
    false)), (String ((Ascii (true, false, true, true, false, true, true,
    false)), (String ((Ascii (true, false, false, true, false, true, true,
    false)), (String ((Ascii (false, true, true, true, false, true, true,
    false)), (String ((Ascii (true, false, false, true, false, true, true,
    false)), (String ((Ascii (true, false, true, true, false, true, true,
    false)), (String ((Ascii (true, false, true, false, true, true, true,
    false)), (String ((Ascii (true, false, true, true, false, true, true,
    false)),
    EmptyString))))))))))))))))))))))))))))))))))))))))))))))))))))))))))))))))))))));
    r_cond = (ValAtLeast ((fun j -> j.jv_msg_len_to_cipher), lo)); r_err =
    iMB_ERR_JOB_CIPH_LEN }

(** val r_cipher_len : n -> n -> rule **)

let r_cipher_len lo hi =
  { r_name = (String ((Ascii (true, true, false, false, false, true, true,
    false)), (String ((Ascii (true, false, false, true, false, true, true,
    false)), (String ((Ascii (false, false, false, false, true, true, true,
    false)), (String ((Ascii (false, false, false, true, false, true, true,
    false)), (String ((Ascii (true, false, true, false, false, true, true,
    false)), (String ((Ascii (false, true, false, false, true, true, true,
    false)), (String ((Ascii (false, false, false, false, false, true, false,
    false)), (String ((Ascii (false, false, true, true, false, true, true,
    false)), (String ((Ascii (true, false, true, false, false, true, true,
    false)), (String ((Ascii (false, true, true, true, false, true, true,
    false)), (String ((Ascii (true, true, true, false, false, true, true,
    false)), (String ((Ascii (false, false, true, false, true, true, true,
    false)), (String ((Ascii (false, false, false, true, false, true, true,
    false)), (String ((Ascii (false, false, false, false, false, true, false,
    false)), (String ((Ascii (true, false, false, true, false, true, true,
    false)), (String ((Ascii (false, true, true, true, false, true, true,
    false)), (String ((Ascii (false, false, false, false, false, true, false,
    false)), (String ((Ascii (false, true, false, false, true, true, true,
    false)), (String ((Ascii (true, false, false, false, false, true, true,
    false)), (String ((Ascii (false, true, true, true, false, true, true,
    false)), (String ((Ascii (true, true, true, false, false, true, true,
    false)), (String ((Ascii (true, false, true, false, false, true, true,
    false)), EmptyString))))))))))))))))))))))))))))))))))))))))))));
    r_cond = (cipherLenBetween lo hi); r_err = iMB_ERR_JOB_CIPH_LEN }

(** val r_cipher_len_mult : n -> rule **)

let r_cipher_len_mult n0 =
  { r_name = (String ((Ascii (true, true, false, false, false, true, true,
    false)), (String ((Ascii (true, false, false, true, false, true, true,
    false)), (String ((Ascii (false, false, false, false, true, true, true,
    false)), (String ((Ascii (false, false, false, true, false, true, true,
    false)), (String ((Ascii (true, false, true, false, false, true, true,
    false)), (String ((Ascii (false, true, false, false, true, true, true,
    false)), (String ((Ascii (false, false, false, false, false, true, false,
    false)), (String ((Ascii (false, false, true, true, false, true, true,
    false)), (String ((Ascii (true, false, true, false, false, true, true,
    false)), (String ((Ascii (false, true, true, true, false, true, true,
    false)), (String ((Ascii (true, true, true, false, false, true, true,
    false)), (String ((Ascii (false, false, true, false, true, true, true,
    false)), (String ((Ascii (false, false, false, true, false, true, true,
    false)), (String ((Ascii (false, false, false, false, false, true, false,
    false)), (String ((Ascii (false, true, false, false, false, true, true,
    false)), (String ((Ascii (false, false, true, true, false, true, true,
    false)), (String ((Ascii (true, true, true, true, false, true, true,
    false)), (String ((Ascii (true, true, false, false, false, true, true,
    false)), (String ((Ascii (true, true, false, true, false, true, true,
    false)), (String ((Ascii (false, false, false, false, false, true, false,
    false)), (String ((Ascii (true, false, false, false, false, true, true,
    false)), (String ((Ascii (false, false, true, true, false, true, true,
    false)), (String ((Ascii (true, false, false, true, false, true, true,
    false)), (String ((Ascii (true, true, true, false, false, true, true,
    false)), (String ((Ascii (false, true, true, true, false, true, true,
    false)), (String ((Ascii (true, false, true, false, false, true, true,
    false)), (String ((Ascii (false, false, true, false, false, true, true,
    false)),
    EmptyString))))))))))))))))))))))))))))))))))))))))))))))))))))));
    r_cond = (cipherLenMultipleOf n0); r_err = iMB_ERR_JOB_CIPH_LEN }

(** val r_pair_hash : n -> rule **)

let r_pair_hash h =
  { r_name = (String ((Ascii (true, true, false, false, false, true, true,
    false)), (String ((Ascii (true, false, false, true, false, true, true,
    false)), (String ((Ascii (false, false, false, false, true, true, true,
    false)), (String ((Ascii (false, false, false, true, false, true, true,
    false)), (String ((Ascii (true, false, true, false, false, true, true,
    false)), (String ((Ascii (false, true, false, false, true, true, true,
    false)), (String ((Ascii (false, false, false, false, false, true, false,
    false)), (String ((Ascii (true, false, true, true, false, true, true,
    false)), (String ((Ascii (true, true, true, true, false, true, true,
    false)), (String ((Ascii (false, false, true, false, false, true, true,
    false)), (String ((Ascii (true, false, true, false, false, true, true,
    false)), (String ((Ascii (false, false, false, false, false, true, false,
    false)), (String ((Ascii (false, false, false, false, true, true, true,
    false)), (String ((Ascii (true, false, false, false, false, true, true,
    false)), (String ((Ascii (true, false, false, true, false, true, true,
    false)), (String ((Ascii (false, true, false, false, true, true, true,
    false)), (String ((Ascii (true, false, true, false, false, true, true,
    false)), (String ((Ascii (false, false, true, false, false, true, true,
    false)), (String ((Ascii (false, false, false, false, false, true, false,
    false)), (String ((Ascii (true, true, true, false, true, true, true,
    false)), (String ((Ascii (true, false, false, true, false, true, true,
    false)), (String ((Ascii (false, false, true, false, true, true, true,
    false)), (String ((Ascii (false, false, false, true, false, true, true,
    false)), (String ((Ascii (false, false, false, false, false, true, false,
    false)), (String ((Ascii (true, false, false, true, false, true, true,
    false)), (String ((Ascii (false, false, true, false, true, true, true,
    false)), (String ((Ascii (true, true, false, false, true, true, true,
    false)), (String ((Ascii (false, false, false, false, false, true, false,
    false)), (String ((Ascii (false, false, false, true, false, true, true,
    false)), (String ((Ascii (true, false, false, false, false, true, true,
    false)), (String ((Ascii (true, true, false, false, true, true, true,
    false)), (String ((Ascii (false, false, false, true, false, true, true,
    false)), (String ((Ascii (false, false, false, false, false, true, false,
    false)), (String ((Ascii (true, false, false, false, false, true, true,
    false)), (String ((Ascii (false, false, true, true, false, true, true,
    false)), (String ((Ascii (true, true, true, false, false, true, true,
    false)), (String ((Ascii (true, true, true, true, false, true, true,
    false)), (String ((Ascii (false, true, false, false, true, true, true,
    false)), (String ((Ascii (true, false, false, true, false, true, true,
    false)), (String ((Ascii (false, false, true, false, true, true, true,
    false)), (String ((Ascii (false, false, false, true, false, true, true,
    false)), (String ((Ascii (true, false, true, true, false, true, true,
    false)),
    EmptyString))))))))))))))))))))))))))))))))))))))))))))))))))))))))))))))))))))))))))))))))))));
    r_cond = (pairedWithHash h); r_err = iMB_ERR_HASH_ALGO }

(** val r_pair_cipher : n -> rule **)

let r_pair_cipher c =
  { r_name = (String ((Ascii (false, false, false, true, false, true, true,
    false)), (String ((Ascii (true, false, false, false, false, true, true,
    false)), (String ((Ascii (true, true, false, false, true, true, true,
    false)), (String ((Ascii (false, false, false, true, false, true, true,
    false)), (String ((Ascii (false, false, false, false, false, true, false,
    false)), (String ((Ascii (true, false, false, false, false, true, true,
    false)), (String ((Ascii (false, false, true, true, false, true, true,
    false)), (String ((Ascii (true, true, true, false, false, true, true,
    false)), (String ((Ascii (true, true, true, true, false, true, true,
    false)), (String ((Ascii (false, true, false, false, true, true, true,
    false)), (String ((Ascii (true, false, false, true, false, true, true,
    false)), (String ((Ascii (false, false, true, false, true, true, true,
    false)), (String ((Ascii (false, false, false, true, false, true, true,
    false)), (String ((Ascii (true, false, true, true, false, true, true,
    false)), (String ((Ascii (false, false, false, false, false, true, false,
    false)), (String ((Ascii (false, false, false, false, true, true, true,
    false)), (String ((Ascii (true, false, false, false, false, true, true,
    false)), (String ((Ascii (true, false, false, true, false, true, true,
    false)), (String ((Ascii (false, true, false, false, true, true, true,
    false)), (String ((Ascii (true, false, true, false, false, true, true,
    false)), (String ((Ascii (false, false, true, false, false, true, true,
    false)), (String ((Ascii (false, false, false, false, false, true, false,
    false)), (String ((Ascii (true, true, true, false, true, true, true,
    false)), (String ((Ascii (true, false, false, true, false, true, true,
    false)), (String ((Ascii (false, false, true, false, true, true, true,
    false)), (String ((Ascii (false, false, false, true, false, true, true,
    false)), (String ((Ascii (false, false, false, false, false, true, false,
    false)), (String ((Ascii (true, false, false, true, false, true, true,
    false)), (String ((Ascii (false, false, true, false, true, true, true,
    false)), (String ((Ascii (true, true, false, false, true, true, true,
    false)), (String ((Ascii (false, false, false, false, false, true, false,
    false)), (String ((Ascii (true, true, false, false, false, true, true,
    false)), (String ((Ascii (true, false, false, true, false, true, true,
    false)), (String ((Ascii (false, false, false, false, true, true, true,
    false)), (String ((Ascii (false, false, false, true, false, true, true,
    false)), (String ((Ascii (true, false, true, false, false, true, true,
    false)), (String ((Ascii (false, true, false, false, true, true, true,
    false)), (String ((Ascii (false, false, false, false, false, true, false,
    false)), (String ((Ascii (true, false, true, true, false, true, true,
    false)), (String ((Ascii (true, true, true, true, false, true, true,
    false)), (String ((Ascii (false, false, true, false, false, true, true,
    false)), (String ((Ascii (true, false, true, false, false, true, true,
    false)),
    EmptyString))))))))))))))))))))))))))))))))))))))))))))))))))))))))))))))))))))))))))))))))))));
    r_cond = (pairedWithCipher c); r_err = iMB_ERR_CIPH_MODE }

(** val r_tag : rule **)

let r_tag =
  { r_name = (String ((Ascii (true, false, false, false, false, true, true,
    false)), (String ((Ascii (true, false, true, false, true, true, true,
    false)), (String ((Ascii (false, false, true, false, true, true, true,
    false)), (String ((Ascii (false, false, false, true, false, true, true,
    false)), (String ((Ascii (true, true, true, true, true, false, true,
    false)), (String ((Ascii (false, false, true, false, true, true, true,
    false)), (String ((Ascii (true, false, false, false, false, true, true,
    false)), (String ((Ascii (true, true, true, false, false, true, true,
    false)), (String ((Ascii (true, true, true, true, true, false, true,
    false)), (String ((Ascii (true, true, true, true, false, true, true,
    false)), (String ((Ascii (true, false, true, false, true, true, true,
    false)), (String ((Ascii (false, false, true, false, true, true, true,
    false)), (String ((Ascii (false, false, false, false, true, true, true,
    false)), (String ((Ascii (true, false, true, false, true, true, true,
    false)), (String ((Ascii (false, false, true, false, true, true, true,
    false)), (String ((Ascii (false, false, false, false, false, true, false,
    false)), (String ((Ascii (true, false, false, false, false, true, false,
    false)), (String ((Ascii (true, false, true, true, true, true, false,
    false)), (String ((Ascii (false, false, false, false, false, true, false,
    false)), (String ((Ascii (false, true, true, true, false, false, true,
    false)), (String ((Ascii (true, false, true, false, true, false, true,
    false)), (String ((Ascii (false, false, true, true, false, false, true,
    false)), (String ((Ascii (false, false, true, true, false, false, true,
    false)), EmptyString))))))))))))))))))))))))))))))))))))))))))))));
    r_cond = (NonNull (fun j -> j.jv_auth_tag_output)); r_err =
    iMB_ERR_JOB_NULL_AUTH }

(** val r_tag_len : n list -> rule **)

let r_tag_len vs =
  { r_name = (String ((Ascii (false, false, true, false, true, true, true,
    false)), (String ((Ascii (true, false, false, false, false, true, true,
    false)), (String ((Ascii (true, true, true, false, false, true, true,
    false)), (String ((Ascii (false, false, false, false, false, true, false,
    false)), (String ((Ascii (false, false, true, true, false, true, true,
    false)), (String ((Ascii (true, false, true, false, false, true, true,
    false)), (String ((Ascii (false, true, true, true, false, true, true,
    false)), (String ((Ascii (true, true, true, false, false, true, true,
    false)), (String ((Ascii (false, false, true, false, true, true, true,
    false)), (String ((Ascii (false, false, false, true, false, true, true,
    false)), (String ((Ascii (false, false, false, false, false, true, false,
    false)), (String ((Ascii (true, true, false, false, true, true, true,
    false)), (String ((Ascii (true, false, true, false, true, true, true,
    false)), (String ((Ascii (false, false, false, false, true, true, true,
    false)), (String ((Ascii (false, false, false, false, true, true, true,
    false)), (String ((Ascii (true, true, true, true, false, true, true,
    false)), (String ((Ascii (false, true, false, false, true, true, true,
    false)), (String ((Ascii (false, false, true, false, true, true, true,
    false)), (String ((Ascii (true, false, true, false, false, true, true,
    false)), (String ((Ascii (false, false, true, false, false, true, true,
    false)), EmptyString)))))))))))))))))))))))))))))))))))))))); r_cond =
    (tagLenIn vs); r_err = iMB_ERR_JOB_AUTH_TAG_LEN }

(** val r_tag_len_between : n -> n -> rule **)

let r_tag_len_between lo hi =
  { r_name = (String ((Ascii (false, false, true, false, true, true, true,
    false)), (String ((Ascii (true, false, false, false, false, true, true,
    false)), (String ((Ascii (true, true, true, false, false, true, true,
    false)), (String ((Ascii (false, false, false, false, false, true, false,
    false)), (String ((Ascii (false, false, true, true, false, true, true,
    false)), (String ((Ascii (true, false, true, false, false, true, true,
    false)), (String ((Ascii (false, true, true, true, false, true, true,
    false)), (String ((Ascii (true, true, true, false, false, true, true,
    false)), (String ((Ascii (false, false, true, false, true, true, true,
    false)), (String ((Ascii (false, false, false, true, false, true, true,
    false)), (String ((Ascii (false, false, false, false, false, true, false,
    false)), (String ((Ascii (true, false, false, true, false, true, true,
    false)), (String ((Ascii (false, true, true, true, false, true, true,
    false)), (String ((Ascii (false, false, false, false, false, true, false,
    false)), (String ((Ascii (false, true, false, false, true, true, true,
    false)), (String ((Ascii (true, false, false, false, false, true, true,
    false)), (String ((Ascii (false, true, true, true, false, true, true,
    false)), (String ((Ascii (true, true, true, false, false, true, true,
    false)), (String ((Ascii (true, false, true, false, false, true, true,
    false)), EmptyString)))))))))))))))))))))))))))))))))))))); r_cond =
    (tagLenBetween lo hi); r_err = iMB_ERR_JOB_AUTH_TAG_LEN }

(** val r_hash_len : n -> n -> rule **)

let r_hash_len lo hi =
  { r_name = (String ((Ascii (false, false, false, true, false, true, true,
    false)), (String ((Ascii (true, false, false, false, false, true, true,
    false)), (String ((Ascii (true, true, false, false, true, true, true,
    false)), (String ((Ascii (false, false, false, true, false, true, true,
    false)), (String ((Ascii (false, false, false, false, false, true, false,
    false)), (String ((Ascii (false, false, true, true, false, true, true,
    false)), (String ((Ascii (true, false, true, false, false, true, true,
    false)), (String ((Ascii (false, true, true, true, false, true, true,
    false)), (String ((Ascii (true, true, true, false, false, true, true,
    false)), (String ((Ascii (false, false, true, false, true, true, true,
    false)), (String ((Ascii (false, false, false, true, false, true, true,
    false)), (String ((Ascii (false, false, false, false, false, true, false,
    false)), (String ((Ascii (true, false, false, true, false, true, true,
    false)), (String ((Ascii (false, true, true, true, false, true, true,
    false)), (String ((Ascii (false, false, false, false, false, true, false,
    false)), (String ((Ascii (false, true, false, false, true, true, true,
    false)), (String ((Ascii (true, false, false, false, false, true, true,
    false)), (String ((Ascii (false, true, true, true, false, true, true,
    false)), (String ((Ascii (true, true, true, false, false, true, true,
    false)), (String ((Ascii (true, false, true, false, false, true, true,
    false)), EmptyString)))))))))))))))))))))))))))))))))))))))); r_cond =
    (hashLenBetween lo hi); r_err = iMB_ERR_JOB_AUTH_LEN }

(** val r_hash_src : rule **)

let r_hash_src =
  { r_name = (String ((Ascii (true, true, false, false, true, true, true,
    false)), (String ((Ascii (false, true, false, false, true, true, true,
    false)), (String ((Ascii (true, true, false, false, false, true, true,
    false)), (String ((Ascii (false, false, false, false, false, true, false,
    false)), (String ((Ascii (true, false, false, false, false, true, false,
    false)), (String ((Ascii (true, false, true, true, true, true, false,
    false)), (String ((Ascii (false, false, false, false, false, true, false,
    false)), (String ((Ascii (false, true, true, true, false, false, true,
    false)), (String ((Ascii (true, false, true, false, true, false, true,
    false)), (String ((Ascii (false, false, true, true, false, false, true,
    false)), (String ((Ascii (false, false, true, true, false, false, true,
    false)), EmptyString)))))))))))))))))))))); r_cond = (NonNull (fun j ->
    j.jv_src)); r_err = iMB_ERR_JOB_NULL_SRC }

(** val r_hash_src_if_len : rule **)

let r_hash_src_if_len =
  { r_name = (String ((Ascii (true, true, false, false, true, true, true,
    false)), (String ((Ascii (false, true, false, false, true, true, true,
    false)), (String ((Ascii (true, true, false, false, false, true, true,
    false)), (String ((Ascii (false, false, false, false, false, true, false,
    false)), (String ((Ascii (true, false, false, false, false, true, false,
    false)), (String ((Ascii (true, false, true, true, true, true, false,
    false)), (String ((Ascii (false, false, false, false, false, true, false,
    false)), (String ((Ascii (false, true, true, true, false, false, true,
    false)), (String ((Ascii (true, false, true, false, true, false, true,
    false)), (String ((Ascii (false, false, true, true, false, false, true,
    false)), (String ((Ascii (false, false, true, true, false, false, true,
    false)), (String ((Ascii (false, false, false, false, false, true, false,
    false)), (String ((Ascii (true, true, true, false, true, true, true,
    false)), (String ((Ascii (false, false, false, true, false, true, true,
    false)), (String ((Ascii (true, false, true, false, false, true, true,
    false)), (String ((Ascii (false, true, true, true, false, true, true,
    false)), (String ((Ascii (false, false, false, false, false, true, false,
    false)), (String ((Ascii (false, false, true, false, true, true, true,
    false)), (String ((Ascii (false, false, false, true, false, true, true,
    false)), (String ((Ascii (true, false, true, false, false, true, true,
    false)), (String ((Ascii (false, true, false, false, true, true, true,
    false)), (String ((Ascii (true, false, true, false, false, true, true,
    false)), (String ((Ascii (false, false, false, false, false, true, false,
    false)), (String ((Ascii (true, false, false, true, false, true, true,
    false)), (String ((Ascii (true, true, false, false, true, true, true,
    false)), (String ((Ascii (false, false, false, false, false, true, false,
    false)), (String ((Ascii (false, false, true, false, false, true, true,
    false)), (String ((Ascii (true, false, false, false, false, true, true,
    false)), (String ((Ascii (false, false, true, false, true, true, true,
    false)), (String ((Ascii (true, false, false, false, false, true, true,
    false)), (String ((Ascii (false, false, false, false, false, true, false,
    false)), (String ((Ascii (false, false, true, false, true, true, true,
    false)), (String ((Ascii (true, true, true, true, false, true, true,
    false)), (String ((Ascii (false, false, false, false, false, true, false,
    false)), (String ((Ascii (false, false, false, true, false, true, true,
    false)), (String ((Ascii (true, false, false, false, false, true, true,
    false)), (String ((Ascii (true, true, false, false, true, true, true,
    false)), (String ((Ascii (false, false, false, true, false, true, true,
    false)),
    EmptyString))))))))))))))))))))))))))))))))))))))))))))))))))))))))))))))))))))))))))));
    r_cond = (When (hashLenNonZero, (NonNull (fun j -> j.jv_src)))); r_err =
    iMB_ERR_JOB_NULL_SRC }

(** val r_aad : rule **)

let r_aad =
  { r_name = (String ((Ascii (true, false, false, false, false, true, true,
    false)), (String ((Ascii (true, false, false, false, false, true, true,
    false)), (String ((Ascii (false, false, true, false, false, true, true,
    false)), (String ((Ascii (false, false, false, false, false, true, false,
    false)), (String ((Ascii (true, false, false, false, false, true, false,
    false)), (String ((Ascii (true, false, true, true, true, true, false,
    false)), (String ((Ascii (false, false, false, false, false, true, false,
    false)), (String ((Ascii (false, true, true, true, false, false, true,
    false)), (String ((Ascii (true, false, true, false, true, false, true,
    false)), (String ((Ascii (false, false, true, true, false, false, true,
    false)), (String ((Ascii (false, false, true, true, false, false, true,
    false)), (String ((Ascii (false, false, false, false, false, true, false,
    false)), (String ((Ascii (true, true, true, false, true, true, true,
    false)), (String ((Ascii (false, false, false, true, false, true, true,
    false)), (String ((Ascii (true, false, true, false, false, true, true,
    false)), (String ((Ascii (false, true, true, true, false, true, true,
    false)), (String ((Ascii (false, false, false, false, false, true, false,
    false)), (String ((Ascii (true, false, false, false, false, true, true,
    false)), (String ((Ascii (true, false, false, false, false, true, true,
    false)), (String ((Ascii (false, false, true, false, false, true, true,
    false)), (String ((Ascii (true, true, true, true, true, false, true,
    false)), (String ((Ascii (false, false, true, true, false, true, true,
    false)), (String ((Ascii (true, false, true, false, false, true, true,
    false)), (String ((Ascii (false, true, true, true, false, true, true,
    false)), (String ((Ascii (false, false, false, false, false, true, false,
    false)), (String ((Ascii (false, true, true, true, true, true, false,
    false)), (String ((Ascii (false, false, false, false, false, true, false,
    false)), (String ((Ascii (false, false, false, false, true, true, false,
    false)),
    EmptyString))))))))))))))))))))))))))))))))))))))))))))))))))))))));
    r_cond = (When (hasAad, (NonNull (fun j -> j.jv_u0)))); r_err =
    iMB_ERR_JOB_NULL_AAD }

(** val sglPerSegment : cond **)

let sglPerSegment =
  sglStateIn (iMB_SGL_INIT :: (iMB_SGL_UPDATE :: (iMB_SGL_COMPLETE :: [])))

(** val sglAll : cond **)

let sglAll =
  sglStateIn (iMB_SGL_ALL :: [])

(** val sgl_rules : n -> rule list **)

let sgl_rules max_len =
  { r_name = (String ((Ascii (true, true, false, false, true, false, true,
    false)), (String ((Ascii (true, true, true, false, false, false, true,
    false)), (String ((Ascii (false, false, true, true, false, false, true,
    false)), (String ((Ascii (false, false, false, false, false, true, false,
    false)), (String ((Ascii (true, true, false, false, true, true, true,
    false)), (String ((Ascii (false, false, true, false, true, true, true,
    false)), (String ((Ascii (true, false, false, false, false, true, true,
    false)), (String ((Ascii (false, false, true, false, true, true, true,
    false)), (String ((Ascii (true, false, true, false, false, true, true,
    false)), (String ((Ascii (false, false, false, false, false, true, false,
    false)), (String ((Ascii (true, false, false, true, false, true, true,
    false)), (String ((Ascii (true, true, false, false, true, true, true,
    false)), (String ((Ascii (false, false, false, false, false, true, false,
    false)), (String ((Ascii (true, true, true, true, false, true, true,
    false)), (String ((Ascii (false, true, true, true, false, true, true,
    false)), (String ((Ascii (true, false, true, false, false, true, true,
    false)), (String ((Ascii (false, false, false, false, false, true, false,
    false)), (String ((Ascii (true, true, true, true, false, true, true,
    false)), (String ((Ascii (false, true, true, false, false, true, true,
    false)), (String ((Ascii (false, false, false, false, false, true, false,
    false)), (String ((Ascii (true, false, false, true, false, false, true,
    false)), (String ((Ascii (false, true, true, true, false, false, true,
    false)), (String ((Ascii (true, false, false, true, false, false, true,
    false)), (String ((Ascii (false, false, true, false, true, false, true,
    false)), (String ((Ascii (true, true, true, true, false, true, false,
    false)), (String ((Ascii (true, false, true, false, true, false, true,
    false)), (String ((Ascii (false, false, false, false, true, false, true,
    false)), (String ((Ascii (false, false, true, false, false, false, true,
    false)), (String ((Ascii (true, false, false, false, false, false, true,
    false)), (String ((Ascii (false, false, true, false, true, false, true,
    false)), (String ((Ascii (true, false, true, false, false, false, true,
    false)), (String ((Ascii (true, true, true, true, false, true, false,
    false)), (String ((Ascii (true, true, false, false, false, false, true,
    false)), (String ((Ascii (true, true, true, true, false, false, true,
    false)), (String ((Ascii (true, false, true, true, false, false, true,
    false)), (String ((Ascii (false, false, false, false, true, false, true,
    false)), (String ((Ascii (false, false, true, true, false, false, true,
    false)), (String ((Ascii (true, false, true, false, false, false, true,
    false)), (String ((Ascii (false, false, true, false, true, false, true,
    false)), (String ((Ascii (true, false, true, false, false, false, true,
    false)), (String ((Ascii (true, true, true, true, false, true, false,
    false)), (String ((Ascii (true, false, false, false, false, false, true,
    false)), (String ((Ascii (false, false, true, true, false, false, true,
    false)), (String ((Ascii (false, false, true, true, false, false, true,
    false)),
    EmptyString))))))))))))))))))))))))))))))))))))))))))))))))))))))))))))))))))))))))))))))))))))))));
    r_cond =
    (sglStateIn
      (iMB_SGL_INIT :: (iMB_SGL_UPDATE :: (iMB_SGL_COMPLETE :: (iMB_SGL_ALL :: [])))));
    r_err = iMB_ERR_JOB_SGL_STATE } :: ({ r_name = (String ((Ascii (true,
    true, false, false, true, true, true, false)), (String ((Ascii (true,
    false, true, false, false, true, true, false)), (String ((Ascii (true,
    true, true, false, false, true, true, false)), (String ((Ascii (true,
    false, true, true, false, true, true, false)), (String ((Ascii (true,
    false, true, false, false, true, true, false)), (String ((Ascii (false,
    true, true, true, false, true, true, false)), (String ((Ascii (false,
    false, true, false, true, true, true, false)), (String ((Ascii (false,
    false, false, false, false, true, false, false)), (String ((Ascii (false,
    false, true, true, false, true, true, false)), (String ((Ascii (true,
    false, true, false, false, true, true, false)), (String ((Ascii (false,
    true, true, true, false, true, true, false)), (String ((Ascii (true,
    true, true, false, false, true, true, false)), (String ((Ascii (false,
    false, true, false, true, true, true, false)), (String ((Ascii (false,
    false, false, true, false, true, true, false)), (String ((Ascii (false,
    false, false, false, false, true, false, false)), (String ((Ascii (true,
    true, true, false, true, true, true, false)), (String ((Ascii (true,
    false, false, true, false, true, true, false)), (String ((Ascii (false,
    false, true, false, true, true, true, false)), (String ((Ascii (false,
    false, false, true, false, true, true, false)), (String ((Ascii (true,
    false, false, true, false, true, true, false)), (String ((Ascii (false,
    true, true, true, false, true, true, false)), (String ((Ascii (false,
    false, false, false, false, true, false, false)), (String ((Ascii (false,
    false, true, false, true, true, true, false)), (String ((Ascii (false,
    false, false, true, false, true, true, false)), (String ((Ascii (true,
    false, true, false, false, true, true, false)), (String ((Ascii (false,
    false, false, false, false, true, false, false)), (String ((Ascii (true,
    false, false, false, false, true, true, false)), (String ((Ascii (false,
    false, true, true, false, true, true, false)), (String ((Ascii (true,
    true, true, false, false, true, true, false)), (String ((Ascii (true,
    true, true, true, false, true, true, false)), (String ((Ascii (false,
    true, false, false, true, true, true, false)), (String ((Ascii (true,
    false, false, true, false, true, true, false)), (String ((Ascii (false,
    false, true, false, true, true, true, false)), (String ((Ascii (false,
    false, false, true, false, true, true, false)), (String ((Ascii (true,
    false, true, true, false, true, true, false)), (String ((Ascii (false,
    false, false, false, false, true, false, false)), (String ((Ascii (false,
    false, true, true, false, true, true, false)), (String ((Ascii (true,
    false, false, true, false, true, true, false)), (String ((Ascii (true,
    false, true, true, false, true, true, false)), (String ((Ascii (true,
    false, false, true, false, true, true, false)), (String ((Ascii (false,
    false, true, false, true, true, true, false)),
    EmptyString))))))))))))))))))))))))))))))))))))))))))))))))))))))))))))))))))))))))))))))))));
    r_cond = (When (sglPerSegment, (cipherLenBetween N0 max_len))); r_err =
    iMB_ERR_JOB_CIPH_LEN } :: ({ r_name = (String ((Ascii (true, true, false,
    false, true, true, true, false)), (String ((Ascii (false, true, false,
    false, true, true, true, false)), (String ((Ascii (true, true, false,
    false, false, true, true, false)), (String ((Ascii (false, false, false,
    false, false, true, false, false)), (String ((Ascii (true, false, false,
    false, false, true, false, false)), (String ((Ascii (true, false, true,
    true, true, true, false, false)), (String ((Ascii (false, false, false,
    false, false, true, false, false)), (String ((Ascii (false, true, true,
    true, false, false, true, false)), (String ((Ascii (true, false, true,
    false, true, false, true, false)), (String ((Ascii (false, false, true,
    true, false, false, true, false)), (String ((Ascii (false, false, true,
    true, false, false, true, false)), (String ((Ascii (false, false, false,
    false, false, true, false, false)), (String ((Ascii (false, true, true,
    false, false, true, true, false)), (String ((Ascii (true, true, true,
    true, false, true, true, false)), (String ((Ascii (false, true, false,
    false, true, true, true, false)), (String ((Ascii (false, false, false,
    false, false, true, false, false)), (String ((Ascii (true, false, false,
    false, false, true, true, false)), (String ((Ascii (false, false, false,
    false, false, true, false, false)), (String ((Ascii (false, true, true,
    true, false, true, true, false)), (String ((Ascii (true, true, true,
    true, false, true, true, false)), (String ((Ascii (false, true, true,
    true, false, true, true, false)), (String ((Ascii (true, false, true,
    true, false, true, false, false)), (String ((Ascii (true, false, true,
    false, false, true, true, false)), (String ((Ascii (true, false, true,
    true, false, true, true, false)), (String ((Ascii (false, false, false,
    false, true, true, true, false)), (String ((Ascii (false, false, true,
    false, true, true, true, false)), (String ((Ascii (true, false, false,
    true, true, true, true, false)), (String ((Ascii (false, false, false,
    false, false, true, false, false)), (String ((Ascii (true, true, false,
    false, true, true, true, false)), (String ((Ascii (true, false, true,
    false, false, true, true, false)), (String ((Ascii (true, true, true,
    false, false, true, true, false)), (String ((Ascii (true, false, true,
    true, false, true, true, false)), (String ((Ascii (true, false, true,
    false, false, true, true, false)), (String ((Ascii (false, true, true,
    true, false, true, true, false)), (String ((Ascii (false, false, true,
    false, true, true, true, false)),
    EmptyString))))))))))))))))))))))))))))))))))))))))))))))))))))))))))))))))))))));
    r_cond = (When ((Both (sglPerSegment, cipherLenNonZero)), (NonNull
    (fun j -> j.jv_src)))); r_err = iMB_ERR_JOB_NULL_SRC } :: ({ r_name =
    (String ((Ascii (false, false, true, false, false, true, true, false)),
    (String ((Ascii (true, true, false, false, true, true, true, false)),
    (String ((Ascii (false, false, true, false, true, true, true, false)),
    (String ((Ascii (false, false, false, false, false, true, false, false)),
    (String ((Ascii (true, false, false, false, false, true, false, false)),
    (String ((Ascii (true, false, true, true, true, true, false, false)),
    (String ((Ascii (false, false, false, false, false, true, false, false)),
    (String ((Ascii (false, true, true, true, false, false, true, false)),
    (String ((Ascii (true, false, true, false, true, false, true, false)),
    (String ((Ascii (false, false, true, true, false, false, true, false)),
    (String ((Ascii (false, false, true, true, false, false, true, false)),
    (String ((Ascii (false, false, false, false, false, true, false, false)),
    (String ((Ascii (false, true, true, false, false, true, true, false)),
    (String ((Ascii (true, true, true, true, false, true, true, false)),
    (String ((Ascii (false, true, false, false, true, true, true, false)),
    (String ((Ascii (false, false, false, false, false, true, false, false)),
    (String ((Ascii (true, false, false, false, false, true, true, false)),
    (String ((Ascii (false, false, false, false, false, true, false, false)),
    (String ((Ascii (false, true, true, true, false, true, true, false)),
    (String ((Ascii (true, true, true, true, false, true, true, false)),
    (String ((Ascii (false, true, true, true, false, true, true, false)),
    (String ((Ascii (true, false, true, true, false, true, false, false)),
    (String ((Ascii (true, false, true, false, false, true, true, false)),
    (String ((Ascii (true, false, true, true, false, true, true, false)),
    (String ((Ascii (false, false, false, false, true, true, true, false)),
    (String ((Ascii (false, false, true, false, true, true, true, false)),
    (String ((Ascii (true, false, false, true, true, true, true, false)),
    (String ((Ascii (false, false, false, false, false, true, false, false)),
    (String ((Ascii (true, true, false, false, true, true, true, false)),
    (String ((Ascii (true, false, true, false, false, true, true, false)),
    (String ((Ascii (true, true, true, false, false, true, true, false)),
    (String ((Ascii (true, false, true, true, false, true, true, false)),
    (String ((Ascii (true, false, true, false, false, true, true, false)),
    (String ((Ascii (false, true, true, true, false, true, true, false)),
    (String ((Ascii (false, false, true, false, true, true, true, false)),
    EmptyString))))))))))))))))))))))))))))))))))))))))))))))))))))))))))))))))))))));
    r_cond = (When ((Both (sglPerSegment, cipherLenNonZero)), (NonNull
    (fun j -> j.jv_dst)))); r_err = iMB_ERR_JOB_NULL_DST } :: ({ r_name =
    (String ((Ascii (true, true, false, false, true, true, true, false)),
    (String ((Ascii (true, false, true, false, false, true, true, false)),
    (String ((Ascii (true, true, true, false, false, true, true, false)),
    (String ((Ascii (true, false, true, true, false, true, true, false)),
    (String ((Ascii (true, false, true, false, false, true, true, false)),
    (String ((Ascii (false, true, true, true, false, true, true, false)),
    (String ((Ascii (false, false, true, false, true, true, true, false)),
    (String ((Ascii (false, false, false, false, false, true, false, false)),
    (String ((Ascii (true, false, false, false, false, true, true, false)),
    (String ((Ascii (false, true, false, false, true, true, true, false)),
    (String ((Ascii (false, true, false, false, true, true, true, false)),
    (String ((Ascii (true, false, false, false, false, true, true, false)),
    (String ((Ascii (true, false, false, true, true, true, true, false)),
    (String ((Ascii (false, false, false, false, false, true, false, false)),
    (String ((Ascii (true, false, false, false, false, true, false, false)),
    (String ((Ascii (true, false, true, true, true, true, false, false)),
    (String ((Ascii (false, false, false, false, false, true, false, false)),
    (String ((Ascii (false, true, true, true, false, false, true, false)),
    (String ((Ascii (true, false, true, false, true, false, true, false)),
    (String ((Ascii (false, false, true, true, false, false, true, false)),
    (String ((Ascii (false, false, true, true, false, false, true, false)),
    (String ((Ascii (false, false, false, false, false, true, false, false)),
    (String ((Ascii (true, true, true, false, true, true, true, false)),
    (String ((Ascii (false, false, false, true, false, true, true, false)),
    (String ((Ascii (true, false, true, false, false, true, true, false)),
    (String ((Ascii (false, true, true, true, false, true, true, false)),
    (String ((Ascii (false, false, false, false, false, true, false, false)),
    (String ((Ascii (false, false, true, false, true, true, true, false)),
    (String ((Ascii (false, false, false, true, false, true, true, false)),
    (String ((Ascii (true, false, true, false, false, true, true, false)),
    (String ((Ascii (false, true, false, false, true, true, true, false)),
    (String ((Ascii (true, false, true, false, false, true, true, false)),
    (String ((Ascii (false, false, false, false, false, true, false, false)),
    (String ((Ascii (true, false, false, false, false, true, true, false)),
    (String ((Ascii (false, true, false, false, true, true, true, false)),
    (String ((Ascii (true, false, true, false, false, true, true, false)),
    (String ((Ascii (false, false, false, false, false, true, false, false)),
    (String ((Ascii (true, true, false, false, true, true, true, false)),
    (String ((Ascii (true, false, true, false, false, true, true, false)),
    (String ((Ascii (true, true, true, false, false, true, true, false)),
    (String ((Ascii (true, false, true, true, false, true, true, false)),
    (String ((Ascii (true, false, true, false, false, true, true, false)),
    (String ((Ascii (false, true, true, true, false, true, true, false)),
    (String ((Ascii (false, false, true, false, true, true, true, false)),
    (String ((Ascii (true, true, false, false, true, true, true, false)),
    EmptyString))))))))))))))))))))))))))))))))))))))))))))))))))))))))))))))))))))))))))))))))))))))))));
    r_cond = (When (sglAll, SglArrayNonNull)); r_err =
    iMB_ERR_JOB_NULL_SRC } :: ({ r_name = (String ((Ascii (true, false, true,
    false, false, true, true, false)), (String ((Ascii (false, true, true,
    false, true, true, true, false)), (String ((Ascii (true, false, true,
    false, false, true, true, false)), (String ((Ascii (false, true, false,
    false, true, true, true, false)), (String ((Ascii (true, false, false,
    true, true, true, true, false)), (String ((Ascii (false, false, false,
    false, false, true, false, false)), (String ((Ascii (false, true, true,
    true, false, true, true, false)), (String ((Ascii (true, true, true,
    true, false, true, true, false)), (String ((Ascii (false, true, true,
    true, false, true, true, false)), (String ((Ascii (true, false, true,
    true, false, true, false, false)), (String ((Ascii (true, false, true,
    false, false, true, true, false)), (String ((Ascii (true, false, true,
    true, false, true, true, false)), (String ((Ascii (false, false, false,
    false, true, true, true, false)), (String ((Ascii (false, false, true,
    false, true, true, true, false)), (String ((Ascii (true, false, false,
    true, true, true, true, false)), (String ((Ascii (false, false, false,
    false, false, true, false, false)), (String ((Ascii (true, true, false,
    false, true, true, true, false)), (String ((Ascii (true, false, true,
    false, false, true, true, false)), (String ((Ascii (true, true, true,
    false, false, true, true, false)), (String ((Ascii (true, false, true,
    true, false, true, true, false)), (String ((Ascii (true, false, true,
    false, false, true, true, false)), (String ((Ascii (false, true, true,
    true, false, true, true, false)), (String ((Ascii (false, false, true,
    false, true, true, true, false)), (String ((Ascii (false, false, false,
    false, false, true, false, false)), (String ((Ascii (false, false, false,
    true, false, true, true, false)), (String ((Ascii (true, false, false,
    false, false, true, true, false)), (String ((Ascii (true, true, false,
    false, true, true, true, false)), (String ((Ascii (false, false, false,
    false, false, true, false, false)), (String ((Ascii (true, false, false,
    false, false, true, true, false)), (String ((Ascii (false, true, true,
    true, false, true, true, false)), (String ((Ascii (false, false, false,
    false, false, true, false, false)), (String ((Ascii (true, false, false,
    true, false, true, true, false)), (String ((Ascii (false, true, true,
    true, false, true, true, false)), (String ((Ascii (false, false, false,
    false, true, true, true, false)), (String ((Ascii (true, false, true,
    false, true, true, true, false)), (String ((Ascii (false, false, true,
    false, true, true, true, false)), (String ((Ascii (false, false, false,
    false, false, true, false, false)), (String ((Ascii (false, true, false,
    false, false, true, true, false)), (String ((Ascii (true, false, true,
    false, true, true, true, false)), (String ((Ascii (false, true, true,
    false, false, true, true, false)), (String ((Ascii (false, true, true,
    false, false, true, true, false)), (String ((Ascii (true, false, true,
    false, false, true, true, false)), (String ((Ascii (false, true, false,
    false, true, true, true, false)),
    EmptyString))))))))))))))))))))))))))))))))))))))))))))))))))))))))))))))))))))))))))))))))))))));
    r_cond = (When (sglAll, SglSegInNonNull)); r_err =
    iMB_ERR_JOB_NULL_SRC } :: ({ r_name = (String ((Ascii (true, false, true,
    false, false, true, true, false)), (String ((Ascii (false, true, true,
    false, true, true, true, false)), (String ((Ascii (true, false, true,
    false, false, true, true, false)), (String ((Ascii (false, true, false,
    false, true, true, true, false)), (String ((Ascii (true, false, false,
    true, true, true, true, false)), (String ((Ascii (false, false, false,
    false, false, true, false, false)), (String ((Ascii (false, true, true,
    true, false, true, true, false)), (String ((Ascii (true, true, true,
    true, false, true, true, false)), (String ((Ascii (false, true, true,
    true, false, true, true, false)), (String ((Ascii (true, false, true,
    true, false, true, false, false)), (String ((Ascii (true, false, true,
    false, false, true, true, false)), (String ((Ascii (true, false, true,
    true, false, true, true, false)), (String ((Ascii (false, false, false,
    false, true, true, true, false)), (String ((Ascii (false, false, true,
    false, true, true, true, false)), (String ((Ascii (true, false, false,
    true, true, true, true, false)), (String ((Ascii (false, false, false,
    false, false, true, false, false)), (String ((Ascii (true, true, false,
    false, true, true, true, false)), (String ((Ascii (true, false, true,
    false, false, true, true, false)), (String ((Ascii (true, true, true,
    false, false, true, true, false)), (String ((Ascii (true, false, true,
    true, false, true, true, false)), (String ((Ascii (true, false, true,
    false, false, true, true, false)), (String ((Ascii (false, true, true,
    true, false, true, true, false)), (String ((Ascii (false, false, true,
    false, true, true, true, false)), (String ((Ascii (false, false, false,
    false, false, true, false, false)), (String ((Ascii (false, false, false,
    true, false, true, true, false)), (String ((Ascii (true, false, false,
    false, false, true, true, false)), (String ((Ascii (true, true, false,
    false, true, true, true, false)), (String ((Ascii (false, false, false,
    false, false, true, false, false)), (String ((Ascii (true, false, false,
    false, false, true, true, false)), (String ((Ascii (false, true, true,
    true, false, true, true, false)), (String ((Ascii (false, false, false,
    false, false, true, false, false)), (String ((Ascii (true, true, true,
    true, false, true, true, false)), (String ((Ascii (true, false, true,
    false, true, true, true, false)), (String ((Ascii (false, false, true,
    false, true, true, true, false)), (String ((Ascii (false, false, false,
    false, true, true, true, false)), (String ((Ascii (true, false, true,
    false, true, true, true, false)), (String ((Ascii (false, false, true,
    false, true, true, true, false)), (String ((Ascii (false, false, false,
    false, false, true, false, false)), (String ((Ascii (false, true, false,
    false, false, true, true, false)), (String ((Ascii (true, false, true,
    false, true, true, true, false)), (String ((Ascii (false, true, true,
    false, false, true, true, false)), (String ((Ascii (false, true, true,
    false, false, true, true, false)), (String ((Ascii (true, false, true,
    false, false, true, true, false)), (String ((Ascii (false, true, false,
    false, true, true, true, false)),
    EmptyString))))))))))))))))))))))))))))))))))))))))))))))))))))))))))))))))))))))))))))))))))))))));
    r_cond = (When (sglAll, SglSegOutNonNull)); r_err =
    iMB_ERR_JOB_NULL_DST } :: ({ r_name = (String ((Ascii (false, false,
    true, false, true, true, true, false)), (String ((Ascii (true, true,
    true, true, false, true, true, false)), (String ((Ascii (false, false,
    true, false, true, true, true, false)), (String ((Ascii (true, false,
    false, false, false, true, true, false)), (String ((Ascii (false, false,
    true, true, false, true, true, false)), (String ((Ascii (false, false,
    false, false, false, true, false, false)), (String ((Ascii (true, false,
    true, true, false, true, true, false)), (String ((Ascii (true, false,
    true, false, false, true, true, false)), (String ((Ascii (true, true,
    false, false, true, true, true, false)), (String ((Ascii (true, true,
    false, false, true, true, true, false)), (String ((Ascii (true, false,
    false, false, false, true, true, false)), (String ((Ascii (true, true,
    true, false, false, true, true, false)), (String ((Ascii (true, false,
    true, false, false, true, true, false)), (String ((Ascii (false, false,
    false, false, false, true, false, false)), (String ((Ascii (false, false,
    true, true, false, true, true, false)), (String ((Ascii (true, false,
    true, false, false, true, true, false)), (String ((Ascii (false, true,
    true, true, false, true, true, false)), (String ((Ascii (true, true,
    true, false, false, true, true, false)), (String ((Ascii (false, false,
    true, false, true, true, true, false)), (String ((Ascii (false, false,
    false, true, false, true, true, false)), (String ((Ascii (false, false,
    false, false, false, true, false, false)), (String ((Ascii (true, true,
    true, false, true, true, true, false)), (String ((Ascii (true, false,
    false, true, false, true, true, false)), (String ((Ascii (false, false,
    true, false, true, true, true, false)), (String ((Ascii (false, false,
    false, true, false, true, true, false)), (String ((Ascii (true, false,
    false, true, false, true, true, false)), (String ((Ascii (false, true,
    true, true, false, true, true, false)), (String ((Ascii (false, false,
    false, false, false, true, false, false)), (String ((Ascii (false, false,
    true, false, true, true, true, false)), (String ((Ascii (false, false,
    false, true, false, true, true, false)), (String ((Ascii (true, false,
    true, false, false, true, true, false)), (String ((Ascii (false, false,
    false, false, false, true, false, false)), (String ((Ascii (true, false,
    false, false, false, true, true, false)), (String ((Ascii (false, false,
    true, true, false, true, true, false)), (String ((Ascii (true, true,
    true, false, false, true, true, false)), (String ((Ascii (true, true,
    true, true, false, true, true, false)), (String ((Ascii (false, true,
    false, false, true, true, true, false)), (String ((Ascii (true, false,
    false, true, false, true, true, false)), (String ((Ascii (false, false,
    true, false, true, true, true, false)), (String ((Ascii (false, false,
    false, true, false, true, true, false)), (String ((Ascii (true, false,
    true, true, false, true, true, false)), (String ((Ascii (false, false,
    false, false, false, true, false, false)), (String ((Ascii (false, false,
    true, true, false, true, true, false)), (String ((Ascii (true, false,
    false, true, false, true, true, false)), (String ((Ascii (true, false,
    true, true, false, true, true, false)), (String ((Ascii (true, false,
    false, true, false, true, true, false)), (String ((Ascii (false, false,
    true, false, true, true, true, false)),
    EmptyString))))))))))))))))))))))))))))))))))))))))))))))))))))))))))))))))))))))))))))))))))))))))))))));
    r_cond = (When (sglAll, (SglTotalAtMost max_len))); r_err =
    iMB_ERR_JOB_CIPH_LEN } :: [])))))))

(** val rules_CBC : rule list **)

let rules_CBC =
  r_src :: (r_dst :: (r_iv :: (r_enc_keys_if_enc :: (r_dec_keys_if_dec :: (
    (r_key_len ((Npos (XO (XO (XO (XO XH))))) :: ((Npos (XO (XO (XO (XI
      XH))))) :: ((Npos (XO (XO (XO (XO (XO XH)))))) :: [])))) :: ((r_cipher_len_min
                                                                    (Npos XH)) :: (
    (r_cipher_len_mult (Npos (XO (XO (XO (XO XH)))))) :: ({ r_name = (String
    ((Ascii (true, false, true, false, false, true, true, false)), (String
    ((Ascii (false, true, true, true, false, true, true, false)), (String
    ((Ascii (true, true, false, false, false, true, true, false)), (String
    ((Ascii (false, true, false, false, true, true, true, false)), (String
    ((Ascii (true, false, false, true, true, true, true, false)), (String
    ((Ascii (false, false, false, false, true, true, true, false)), (String
    ((Ascii (false, false, true, false, true, true, true, false)), (String
    ((Ascii (false, false, false, false, false, true, false, false)), (String
    ((Ascii (false, false, true, true, false, true, true, false)), (String
    ((Ascii (true, false, true, false, false, true, true, false)), (String
    ((Ascii (false, true, true, true, false, true, true, false)), (String
    ((Ascii (true, true, true, false, false, true, true, false)), (String
    ((Ascii (false, false, true, false, true, true, true, false)), (String
    ((Ascii (false, false, false, true, false, true, true, false)), (String
    ((Ascii (false, false, false, false, false, true, false, false)), (String
    ((Ascii (true, true, true, false, true, true, true, false)), (String
    ((Ascii (true, false, false, true, false, true, true, false)), (String
    ((Ascii (false, false, true, false, true, true, true, false)), (String
    ((Ascii (false, false, false, true, false, true, true, false)), (String
    ((Ascii (true, false, false, true, false, true, true, false)), (String
    ((Ascii (false, true, true, true, false, true, true, false)), (String
    ((Ascii (false, false, false, false, false, true, false, false)), (String
    ((Ascii (true, false, true, true, false, true, true, false)), (String
    ((Ascii (true, false, true, false, true, true, true, false)), (String
    ((Ascii (false, false, true, true, false, true, true, false)), (String
    ((Ascii (false, false, true, false, true, true, true, false)), (String
    ((Ascii (true, false, false, true, false, true, true, false)), (String
    ((Ascii (true, false, true, true, false, true, false, false)), (String
    ((Ascii (false, true, false, false, false, true, true, false)), (String
    ((Ascii (true, false, true, false, true, true, true, false)), (String
    ((Ascii (false, true, true, false, false, true, true, false)), (String
    ((Ascii (false, true, true, false, false, true, true, false)), (String
    ((Ascii (true, false, true, false, false, true, true, false)), (String
    ((Ascii (false, true, false, false, true, true, true, false)), (String
    ((Ascii (false, false, false, false, false, true, false, false)), (String
    ((Ascii (false, false, true, true, false, true, true, false)), (String
    ((Ascii (true, false, false, true, false, true, true, false)), (String
    ((Ascii (true, false, true, true, false, true, true, false)), (String
    ((Ascii (true, false, false, true, false, true, true, false)), (String
    ((Ascii (false, false, true, false, true, true, true, false)),
    EmptyString))))))))))))))))))))))))))))))))))))))))))))))))))))))))))))))))))))))))))))))));
    r_cond = (When (encrypting, (cipherLenBetween N0 mB_MAX_LEN16))); r_err =
    iMB_ERR_JOB_CIPH_LEN } :: ((r_iv_len ((Npos (XO (XO (XO (XO
                                 XH))))) :: [])) :: [])))))))))

(** val rules_CBCS_1_9 : rule list **)

let rules_CBCS_1_9 =
  r_src :: (r_dst :: (r_iv :: (r_enc_keys_if_enc :: (r_dec_keys_if_dec :: (
    (r_key_len ((Npos (XO (XO (XO (XO XH))))) :: [])) :: ((r_cipher_len (Npos
                                                            XH) (Npos (XI (XI
                                                            (XI (XI (XI (XI
                                                            (XI (XI (XI (XI
                                                            (XI (XI (XI (XI
                                                            (XI (XI (XI (XI
                                                            (XI (XI (XI (XI
                                                            (XI (XI (XI (XI
                                                            (XI (XI (XI (XI
                                                            (XI (XI (XI (XI
                                                            (XI (XI (XI (XI
                                                            (XI (XI (XI (XI
                                                            (XI (XI (XI (XI
                                                            (XI (XI (XI (XI
                                                            (XI (XI (XI (XI
                                                            (XI (XI (XI (XI
                                                            (XI
                                                            XH))))))))))))))))))))))))))))))))))))))))))))))))))))))))))))) :: (
    (r_cipher_len_mult (Npos (XO (XO (XO (XO XH)))))) :: ({ r_name = (String
    ((Ascii (false, true, true, true, false, true, true, false)), (String
    ((Ascii (true, false, true, false, false, true, true, false)), (String
    ((Ascii (false, false, false, true, true, true, true, false)), (String
    ((Ascii (false, false, true, false, true, true, true, false)), (String
    ((Ascii (true, true, true, true, true, false, true, false)), (String
    ((Ascii (true, false, false, true, false, true, true, false)), (String
    ((Ascii (false, true, true, false, true, true, true, false)), (String
    ((Ascii (false, false, false, false, false, true, false, false)), (String
    ((Ascii (true, false, false, false, false, true, false, false)), (String
    ((Ascii (true, false, true, true, true, true, false, false)), (String
    ((Ascii (false, false, false, false, false, true, false, false)), (String
    ((Ascii (false, true, true, true, false, false, true, false)), (String
    ((Ascii (true, false, true, false, true, false, true, false)), (String
    ((Ascii (false, false, true, true, false, false, true, false)), (String
    ((Ascii (false, false, true, true, false, false, true, false)),
    EmptyString)))))))))))))))))))))))))))))); r_cond = (NonNull (fun j ->
    j.jv_next_iv)); r_err =
    iMB_ERR_JOB_NULL_NEXT_IV } :: ((r_iv_len ((Npos (XO (XO (XO (XO
                                     XH))))) :: [])) :: [])))))))))

(** val rules_ECB : rule list **)

let rules_ECB =
  r_src :: (r_dst :: (r_enc_keys_if_enc :: (r_dec_keys_if_dec :: ((r_key_len
                                                                    ((Npos
                                                                    (XO (XO
                                                                    (XO (XO
                                                                    XH))))) :: ((Npos
                                                                    (XO (XO
                                                                    (XO (XI
                                                                    XH))))) :: ((Npos
                                                                    (XO (XO
                                                                    (XO (XO
                                                                    (XO
                                                                    XH)))))) :: [])))) :: (
    (r_cipher_len (Npos XH) mB_MAX_LEN16) :: ((r_cipher_len_mult (Npos (XO
                                                (XO (XO (XO XH)))))) :: []))))))

(** val rules_CNTR : rule list **)

let rules_CNTR =
  r_src :: (r_dst :: (r_iv :: (r_enc_keys :: ((r_key_len ((Npos (XO (XO (XO
                                                (XO XH))))) :: ((Npos (XO (XO
                                                (XO (XI XH))))) :: ((Npos (XO
                                                (XO (XO (XO (XO
                                                XH)))))) :: [])))) :: (
    (r_iv_len ((Npos (XO (XO (XI XH)))) :: ((Npos (XO (XO (XO (XO
      XH))))) :: []))) :: ((r_cipher_len_min (Npos XH)) :: []))))))

(** val rules_CNTR_BITLEN : rule list **)

let rules_CNTR_BITLEN =
  r_src :: (r_dst :: (r_iv :: (r_enc_keys :: ((r_key_len ((Npos (XO (XO (XO
                                                (XO XH))))) :: ((Npos (XO (XO
                                                (XO (XI XH))))) :: ((Npos (XO
                                                (XO (XO (XO (XO
                                                XH)))))) :: [])))) :: (
    (r_iv_len ((Npos (XO (XO (XO (XO XH))))) :: [])) :: ((r_cipher_len_min
                                                           (Npos XH)) :: []))))))

(** val rules_NULL : rule list **)

let rules_NULL =
  []

(** val rules_DOCSIS_SEC_BPI : rule list **)

let rules_DOCSIS_SEC_BPI =
  r_src :: (r_dst :: (r_iv :: (r_enc_keys :: (r_dec_keys_if_dec :: ((r_key_len
                                                                    ((Npos
                                                                    (XO (XO
                                                                    (XO (XO
                                                                    XH))))) :: ((Npos
                                                                    (XO (XO
                                                                    (XO (XO
                                                                    (XO
                                                                    XH)))))) :: []))) :: (
    (r_iv_len ((Npos (XO (XO (XO (XO XH))))) :: [])) :: ((r_cipher_len N0
                                                           mB_MAX_LEN16) :: [])))))))

(** val rules_GCM : rule list **)

let rules_GCM =
  (r_cipher_len N0 iMB_GCM_MAX_LEN) :: (r_src_if_len :: (r_dst_if_len :: (r_iv :: (r_enc_keys_if_enc :: (r_dec_keys_if_dec :: (
    (r_key_len ((Npos (XO (XO (XO (XO XH))))) :: ((Npos (XO (XO (XO (XI
      XH))))) :: ((Npos (XO (XO (XO (XO (XO XH)))))) :: [])))) :: ({ r_name =
    (String ((Ascii (true, false, false, true, false, false, true, false)),
    (String ((Ascii (false, true, true, false, true, false, true, false)),
    (String ((Ascii (false, false, false, false, false, true, false, false)),
    (String ((Ascii (false, false, true, true, false, true, true, false)),
    (String ((Ascii (true, false, true, false, false, true, true, false)),
    (String ((Ascii (false, true, true, true, false, true, true, false)),
    (String ((Ascii (true, true, true, false, false, true, true, false)),
    (String ((Ascii (false, false, true, false, true, true, true, false)),
    (String ((Ascii (false, false, false, true, false, true, true, false)),
    (String ((Ascii (false, false, false, false, false, true, false, false)),
    (String ((Ascii (false, true, true, true, false, true, true, false)),
    (String ((Ascii (true, true, true, true, false, true, true, false)),
    (String ((Ascii (false, true, true, true, false, true, true, false)),
    (String ((Ascii (true, false, true, true, false, true, false, false)),
    (String ((Ascii (false, true, false, true, true, true, true, false)),
    (String ((Ascii (true, false, true, false, false, true, true, false)),
    (String ((Ascii (false, true, false, false, true, true, true, false)),
    (String ((Ascii (true, true, true, true, false, true, true, false)),
    EmptyString)))))))))))))))))))))))))))))))))))); r_cond = (ValAtLeast
    ((fun j -> j.jv_iv_len_in_bytes), (Npos XH))); r_err =
    iMB_ERR_JOB_IV_LEN } :: ((r_pair_hash iMB_AUTH_AES_GMAC) :: []))))))))

(** val rules_GCM_SGL : rule list **)

let rules_GCM_SGL =
  app
    ((r_pair_hash iMB_AUTH_GCM_SGL) :: (r_enc_keys_if_enc :: (r_dec_keys_if_dec :: (
    (r_key_len ((Npos (XO (XO (XO (XO XH))))) :: ((Npos (XO (XO (XO (XI
      XH))))) :: ((Npos (XO (XO (XO (XO (XO XH)))))) :: [])))) :: (r_iv :: ({ r_name =
    (String ((Ascii (true, false, false, true, false, false, true, false)),
    (String ((Ascii (false, true, true, false, true, false, true, false)),
    (String ((Ascii (false, false, false, false, false, true, false, false)),
    (String ((Ascii (false, false, true, true, false, true, true, false)),
    (String ((Ascii (true, false, true, false, false, true, true, false)),
    (String ((Ascii (false, true, true, true, false, true, true, false)),
    (String ((Ascii (true, true, true, false, false, true, true, false)),
    (String ((Ascii (false, false, true, false, true, true, true, false)),
    (String ((Ascii (false, false, false, true, false, true, true, false)),
    (String ((Ascii (false, false, false, false, false, true, false, false)),
    (String ((Ascii (false, true, true, true, false, true, true, false)),
    (String ((Ascii (true, true, true, true, false, true, true, false)),
    (String ((Ascii (false, true, true, true, false, true, true, false)),
    (String ((Ascii (true, false, true, true, false, true, false, false)),
    (String ((Ascii (false, true, false, true, true, true, true, false)),
    (String ((Ascii (true, false, true, false, false, true, true, false)),
    (String ((Ascii (false, true, false, false, true, true, true, false)),
    (String ((Ascii (true, true, true, true, false, true, true, false)),
    EmptyString)))))))))))))))))))))))))))))))))))); r_cond = (ValAtLeast
    ((fun j -> j.jv_iv_len_in_bytes), (Npos XH))); r_err =
    iMB_ERR_JOB_IV_LEN } :: [])))))) (sgl_rules iMB_GCM_MAX_LEN)

(** val rules_SM4_GCM : rule list **)

let rules_SM4_GCM =
  (r_cipher_len N0 iMB_GCM_MAX_LEN) :: (r_src_if_len :: (r_dst_if_len :: (r_iv :: (
    (r_iv_len ((Npos (XO (XO (XI XH)))) :: [])) :: (r_enc_keys_if_enc :: (r_dec_keys_if_dec :: (
    (r_key_len ((Npos (XO (XO (XO (XO XH))))) :: [])) :: ((r_pair_hash
                                                            iMB_AUTH_SM4_GCM) :: []))))))))

(** val rules_CUSTOM : rule list **)

let rules_CUSTOM =
  { r_name = (String ((Ascii (true, true, false, false, false, true, true,
    false)), (String ((Ascii (true, false, false, true, false, true, true,
    false)), (String ((Ascii (false, false, false, false, true, true, true,
    false)), (String ((Ascii (false, false, false, true, false, true, true,
    false)), (String ((Ascii (true, false, true, false, false, true, true,
    false)), (String ((Ascii (false, true, false, false, true, true, true,
    false)), (String ((Ascii (true, true, true, true, true, false, true,
    false)), (String ((Ascii (false, true, true, false, false, true, true,
    false)), (String ((Ascii (true, false, true, false, true, true, true,
    false)), (String ((Ascii (false, true, true, true, false, true, true,
    false)), (String ((Ascii (true, true, false, false, false, true, true,
    false)), (String ((Ascii (false, false, false, false, false, true, false,
    false)), (String ((Ascii (true, false, false, false, false, true, false,
    false)), (String ((Ascii (true, false, true, true, true, true, false,
    false)), (String ((Ascii (false, false, false, false, false, true, false,
    false)), (String ((Ascii (false, true, true, true, false, false, true,
    false)), (String ((Ascii (true, false, true, false, true, false, true,
    false)), (String ((Ascii (false, false, true, true, false, false, true,
    false)), (String ((Ascii (false, false, true, true, false, false, true,
    false)), EmptyString)))))))))))))))))))))))))))))))))))))); r_cond =
    (NonNull (fun j -> j.jv_cipher_func)); r_err = errno_EFAULT } :: []

(** val rules_DES : rule list **)

let rules_DES =
  r_src :: (r_dst :: (r_iv :: (r_enc_keys_if_enc :: (r_dec_keys_if_dec :: (
    (r_key_len ((Npos (XO (XO (XO XH)))) :: [])) :: ((r_cipher_len (Npos XH)
                                                       mB_MAX_LEN16) :: (
    (r_cipher_len_mult (Npos (XO (XO (XO XH))))) :: ((r_iv_len ((Npos (XO (XO
                                                       (XO XH)))) :: [])) :: []))))))))

(** val rules_DOCSIS_DES : rule list **)

let rules_DOCSIS_DES =
  r_src :: (r_dst :: (r_iv :: (r_enc_keys_if_enc :: (r_dec_keys_if_dec :: (
    (r_key_len ((Npos (XO (XO (XO XH)))) :: [])) :: ((r_cipher_len (Npos XH)
                                                       mB_MAX_LEN16) :: (
    (r_iv_len ((Npos (XO (XO (XO XH)))) :: [])) :: [])))))))

(** val rules_DES3 : rule list **)

let rules_DES3 =
  r_src :: (r_dst :: (r_iv :: ((r_key_len ((Npos (XO (XO (XO (XI
                                 XH))))) :: [])) :: ((r_cipher_len (Npos XH)
                                                       mB_MAX_LEN16) :: (
    (r_cipher_len_mult (Npos (XO (XO (XO XH))))) :: ((r_iv_len ((Npos (XO (XO
                                                       (XO XH)))) :: [])) :: (r_enc_keys_if_enc :: (r_dec_keys_if_dec :: ({ r_name =
    (String ((Ascii (true, false, false, false, false, true, true, false)),
    (String ((Ascii (false, false, true, true, false, true, true, false)),
    (String ((Ascii (false, false, true, true, false, true, true, false)),
    (String ((Ascii (false, false, false, false, false, true, false, false)),
    (String ((Ascii (false, false, true, false, true, true, true, false)),
    (String ((Ascii (false, false, false, true, false, true, true, false)),
    (String ((Ascii (false, true, false, false, true, true, true, false)),
    (String ((Ascii (true, false, true, false, false, true, true, false)),
    (String ((Ascii (true, false, true, false, false, true, true, false)),
    (String ((Ascii (false, false, false, false, false, true, false, false)),
    (String ((Ascii (true, false, true, false, false, true, true, false)),
    (String ((Ascii (false, true, true, true, false, true, true, false)),
    (String ((Ascii (true, true, false, false, false, true, true, false)),
    (String ((Ascii (false, true, false, false, true, true, true, false)),
    (String ((Ascii (true, false, false, true, true, true, true, false)),
    (String ((Ascii (false, false, false, false, true, true, true, false)),
    (String ((Ascii (false, false, true, false, true, true, true, false)),
    (String ((Ascii (false, false, false, false, false, true, false, false)),
    (String ((Ascii (true, true, false, true, false, true, true, false)),
    (String ((Ascii (true, false, true, false, false, true, true, false)),
    (String ((Ascii (true, false, false, true, true, true, true, false)),
    (String ((Ascii (false, false, false, false, false, true, false, false)),
    (String ((Ascii (true, true, false, false, true, true, true, false)),
    (String ((Ascii (true, true, false, false, false, true, true, false)),
    (String ((Ascii (false, false, false, true, false, true, true, false)),
    (String ((Ascii (true, false, true, false, false, true, true, false)),
    (String ((Ascii (false, false, true, false, false, true, true, false)),
    (String ((Ascii (true, false, true, false, true, true, true, false)),
    (String ((Ascii (false, false, true, true, false, true, true, false)),
    (String ((Ascii (true, false, true, false, false, true, true, false)),
    (String ((Ascii (true, true, false, false, true, true, true, false)),
    (String ((Ascii (false, false, false, false, false, true, false, false)),
    (String ((Ascii (false, false, false, false, true, true, true, false)),
    (String ((Ascii (false, true, false, false, true, true, true, false)),
    (String ((Ascii (true, false, true, false, false, true, true, false)),
    (String ((Ascii (true, true, false, false, true, true, true, false)),
    (String ((Ascii (true, false, true, false, false, true, true, false)),
    (String ((Ascii (false, true, true, true, false, true, true, false)),
    (String ((Ascii (false, false, true, false, true, true, true, false)),
    EmptyString))))))))))))))))))))))))))))))))))))))))))))))))))))))))))))))))))))))))))))));
    r_cond = (When ((Both (encrypting, (NonNull (fun j -> j.jv_enc_keys)))),
    (Both ((NonNull (fun j -> j.jv_enc_ks0)), (Both ((NonNull (fun j ->
    j.jv_enc_ks1)), (NonNull (fun j -> j.jv_enc_ks2)))))))); r_err =
    iMB_ERR_JOB_NULL_KEY } :: ({ r_name = (String ((Ascii (true, false,
    false, false, false, true, true, false)), (String ((Ascii (false, false,
    true, true, false, true, true, false)), (String ((Ascii (false, false,
    true, true, false, true, true, false)), (String ((Ascii (false, false,
    false, false, false, true, false, false)), (String ((Ascii (false, false,
    true, false, true, true, true, false)), (String ((Ascii (false, false,
    false, true, false, true, true, false)), (String ((Ascii (false, true,
    false, false, true, true, true, false)), (String ((Ascii (true, false,
    true, false, false, true, true, false)), (String ((Ascii (true, false,
    true, false, false, true, true, false)), (String ((Ascii (false, false,
    false, false, false, true, false, false)), (String ((Ascii (false, false,
    true, false, false, true, true, false)), (String ((Ascii (true, false,
    true, false, false, true, true, false)), (String ((Ascii (true, true,
    false, false, false, true, true, false)), (String ((Ascii (false, true,
    false, false, true, true, true, false)), (String ((Ascii (true, false,
    false, true, true, true, true, false)), (String ((Ascii (false, false,
    false, false, true, true, true, false)), (String ((Ascii (false, false,
    true, false, true, true, true, false)), (String ((Ascii (false, false,
    false, false, false, true, false, false)), (String ((Ascii (true, true,
    false, true, false, true, true, false)), (String ((Ascii (true, false,
    true, false, false, true, true, false)), (String ((Ascii (true, false,
    false, true, true, true, true, false)), (String ((Ascii (false, false,
    false, false, false, true, false, false)), (String ((Ascii (true, true,
    false, false, true, true, true, false)), (String ((Ascii (true, true,
    false, false, false, true, true, false)), (String ((Ascii (false, false,
    false, true, false, true, true, false)), (String ((Ascii (true, false,
    true, false, false, true, true, false)), (String ((Ascii (false, false,
    true, false, false, true, true, false)), (String ((Ascii (true, false,
    true, false, true, true, true, false)), (String ((Ascii (false, false,
    true, true, false, true, true, false)), (String ((Ascii (true, false,
    true, false, false, true, true, false)), (String ((Ascii (true, true,
    false, false, true, true, true, false)), (String ((Ascii (false, false,
    false, false, false, true, false, false)), (String ((Ascii (false, false,
    false, false, true, true, true, false)), (String ((Ascii (false, true,
    false, false, true, true, true, false)), (String ((Ascii (true, false,
    true, false, false, true, true, false)), (String ((Ascii (true, true,
    false, false, true, true, true, false)), (String ((Ascii (true, false,
    true, false, false, true, true, false)), (String ((Ascii (false, true,
    true, true, false, true, true, false)), (String ((Ascii (false, false,
    true, false, true, true, true, false)),
    EmptyString))))))))))))))))))))))))))))))))))))))))))))))))))))))))))))))))))))))))))))));
    r_cond = (When ((Both (decrypting, (NonNull (fun j -> j.jv_dec_keys)))),
    (Both ((NonNull (fun j -> j.jv_dec_ks0)), (Both ((NonNull (fun j ->
    j.jv_dec_ks1)), (NonNull (fun j -> j.jv_dec_ks2)))))))); r_err =
    iMB_ERR_JOB_NULL_KEY } :: []))))))))))

(** val rules_CCM : rule list **)

let rules_CCM =
  r_src_if_len :: (r_dst_if_len :: ((r_cipher_len N0 mB_MAX_LEN16) :: (r_iv :: (r_enc_keys :: (
    (r_key_len ((Npos (XO (XO (XO (XO XH))))) :: ((Npos (XO (XO (XO (XO (XO
      XH)))))) :: []))) :: ({ r_name = (String ((Ascii (false, true, true,
    true, false, true, true, false)), (String ((Ascii (true, true, true,
    true, false, true, true, false)), (String ((Ascii (false, true, true,
    true, false, true, true, false)), (String ((Ascii (true, true, false,
    false, false, true, true, false)), (String ((Ascii (true, false, true,
    false, false, true, true, false)), (String ((Ascii (false, false, false,
    false, false, true, false, false)), (String ((Ascii (false, false, true,
    true, false, true, true, false)), (String ((Ascii (true, false, true,
    false, false, true, true, false)), (String ((Ascii (false, true, true,
    true, false, true, true, false)), (String ((Ascii (true, true, true,
    false, false, true, true, false)), (String ((Ascii (false, false, true,
    false, true, true, true, false)), (String ((Ascii (false, false, false,
    true, false, true, true, false)), (String ((Ascii (false, false, false,
    false, false, true, false, false)), (String ((Ascii (true, true, true,
    false, true, true, false, false)), (String ((Ascii (false, true, true,
    true, false, true, false, false)), (String ((Ascii (false, true, true,
    true, false, true, false, false)), (String ((Ascii (true, false, false,
    false, true, true, false, false)), (String ((Ascii (true, true, false,
    false, true, true, false, false)), (String ((Ascii (false, false, false,
    false, false, true, false, false)), (String ((Ascii (false, false, false,
    true, false, true, false, false)), (String ((Ascii (false, true, false,
    false, true, false, true, false)), (String ((Ascii (false, true, true,
    false, false, false, true, false)), (String ((Ascii (true, true, false,
    false, false, false, true, false)), (String ((Ascii (false, false, false,
    false, false, true, false, false)), (String ((Ascii (true, true, false,
    false, true, true, false, false)), (String ((Ascii (false, true, true,
    false, true, true, false, false)), (String ((Ascii (true, false, false,
    false, true, true, false, false)), (String ((Ascii (false, false, false,
    false, true, true, false, false)), (String ((Ascii (true, false, false,
    true, false, true, false, false)),
    EmptyString))))))))))))))))))))))))))))))))))))))))))))))))))))))))));
    r_cond = (ivLenBetween (Npos (XI (XI XH))) (Npos (XI (XO (XI XH)))));
    r_err =
    iMB_ERR_JOB_IV_LEN } :: ((r_pair_hash iMB_AUTH_AES_CCM) :: [])))))))

(** val rules_PON : rule list **)

let rules_PON =
  r_src :: (r_dst :: ({ r_name = (String ((Ascii (true, false, false, true,
    false, true, true, false)), (String ((Ascii (false, true, true, true,
    false, true, true, false)), (String ((Ascii (true, false, true, true,
    false, true, false, false)), (String ((Ascii (false, false, false, false,
    true, true, true, false)), (String ((Ascii (false, false, true, true,
    false, true, true, false)), (String ((Ascii (true, false, false, false,
    false, true, true, false)), (String ((Ascii (true, true, false, false,
    false, true, true, false)), (String ((Ascii (true, false, true, false,
    false, true, true, false)), (String ((Ascii (false, true, false, true,
    true, true, false, false)), (String ((Ascii (false, false, false, false,
    false, true, false, false)), (String ((Ascii (false, false, true, false,
    false, true, true, false)), (String ((Ascii (true, true, false, false,
    true, true, true, false)), (String ((Ascii (false, false, true, false,
    true, true, true, false)), (String ((Ascii (false, false, false, false,
    false, true, false, false)), (String ((Ascii (true, false, true, true,
    true, true, false, false)), (String ((Ascii (false, false, false, false,
    false, true, false, false)), (String ((Ascii (true, true, false, false,
    true, true, true, false)), (String ((Ascii (false, true, false, false,
    true, true, true, false)), (String ((Ascii (true, true, false, false,
    false, true, true, false)), (String ((Ascii (false, false, false, false,
    false, true, false, false)), (String ((Ascii (true, true, false, true,
    false, true, false, false)), (String ((Ascii (false, false, false, false,
    false, true, false, false)), (String ((Ascii (true, true, false, false,
    false, true, true, false)), (String ((Ascii (true, false, false, true,
    false, true, true, false)), (String ((Ascii (false, false, false, false,
    true, true, true, false)), (String ((Ascii (false, false, false, true,
    false, true, true, false)), (String ((Ascii (true, false, true, false,
    false, true, true, false)), (String ((Ascii (false, true, false, false,
    true, true, true, false)), (String ((Ascii (false, false, false, false,
    false, true, false, false)), (String ((Ascii (true, true, true, true,
    false, true, true, false)), (String ((Ascii (false, true, true, false,
    false, true, true, false)), (String ((Ascii (false, true, true, false,
    false, true, true, false)), (String ((Ascii (true, true, false, false,
    true, true, true, false)), (String ((Ascii (true, false, true, false,
    false, true, true, false)), (String ((Ascii (false, false, true, false,
    true, true, true, false)),
    EmptyString))))))))))))))))))))))))))))))))))))))))))))))))))))))))))))))))))))));
    r_cond = PonInPlace; r_err =
    errno_EINVAL } :: ((r_pair_hash iMB_AUTH_PON_CRC_BIP) :: ({ r_name =
    (String ((Ascii (true, true, false, false, false, true, true, false)),
    (String ((Ascii (true, false, false, true, false, true, true, false)),
    (String ((Ascii (false, false, false, false, true, true, true, false)),
    (String ((Ascii (false, false, false, true, false, true, true, false)),
    (String ((Ascii (true, false, true, false, false, true, true, false)),
    (String ((Ascii (false, true, false, false, true, true, true, false)),
    (String ((Ascii (false, false, false, false, false, true, false, false)),
    (String ((Ascii (false, false, true, true, false, true, true, false)),
    (String ((Ascii (true, false, true, false, false, true, true, false)),
    (String ((Ascii (false, true, true, true, false, true, true, false)),
    (String ((Ascii (true, true, true, false, false, true, true, false)),
    (String ((Ascii (false, false, true, false, true, true, true, false)),
    (String ((Ascii (false, false, false, true, false, true, true, false)),
    (String ((Ascii (false, false, false, false, false, true, false, false)),
    (String ((Ascii (true, false, true, true, false, true, true, false)),
    (String ((Ascii (true, false, true, false, true, true, true, false)),
    (String ((Ascii (false, false, true, true, false, true, true, false)),
    (String ((Ascii (false, false, true, false, true, true, true, false)),
    (String ((Ascii (true, false, false, true, false, true, true, false)),
    (String ((Ascii (false, false, false, false, true, true, true, false)),
    (String ((Ascii (false, false, true, true, false, true, true, false)),
    (String ((Ascii (true, false, true, false, false, true, true, false)),
    (String ((Ascii (false, false, false, false, false, true, false, false)),
    (String ((Ascii (true, true, true, true, false, true, true, false)),
    (String ((Ascii (false, true, true, false, false, true, true, false)),
    (String ((Ascii (false, false, false, false, false, true, false, false)),
    (String ((Ascii (false, false, true, false, true, true, false, false)),
    EmptyString))))))))))))))))))))))))))))))))))))))))))))))))))))));
    r_cond = (cipherLenMultipleOf (Npos (XO (XO XH)))); r_err =
    iMB_ERR_JOB_CIPH_LEN } :: ({ r_name = (String ((Ascii (true, true, false,
    false, false, true, true, false)), (String ((Ascii (true, false, false,
    true, false, true, true, false)), (String ((Ascii (false, false, false,
    false, true, true, true, false)), (String ((Ascii (false, false, false,
    true, false, true, true, false)), (String ((Ascii (true, false, true,
    false, false, true, true, false)), (String ((Ascii (false, true, false,
    false, true, true, true, false)), (String ((Ascii (false, false, false,
    false, false, true, false, false)), (String ((Ascii (false, false, true,
    true, false, true, true, false)), (String ((Ascii (true, false, true,
    false, false, true, true, false)), (String ((Ascii (false, true, true,
    true, false, true, true, false)), (String ((Ascii (true, true, true,
    false, false, true, true, false)), (String ((Ascii (false, false, true,
    false, true, true, true, false)), (String ((Ascii (false, false, false,
    true, false, true, true, false)), (String ((Ascii (false, false, false,
    false, false, true, false, false)), (String ((Ascii (false, false, true,
    true, true, true, false, false)), (String ((Ascii (true, false, true,
    true, true, true, false, false)), (String ((Ascii (false, false, false,
    false, false, true, false, false)), (String ((Ascii (false, true, false,
    false, true, true, false, false)), (String ((Ascii (false, true, true,
    true, true, false, true, false)), (String ((Ascii (true, false, false,
    false, true, true, false, false)), (String ((Ascii (false, false, true,
    false, true, true, false, false)), (String ((Ascii (false, false, false,
    false, false, true, false, false)), (String ((Ascii (false, false, false,
    true, false, true, false, false)), (String ((Ascii (true, false, true,
    true, false, true, true, false)), (String ((Ascii (true, false, false,
    false, false, true, true, false)), (String ((Ascii (false, false, false,
    true, true, true, true, false)), (String ((Ascii (false, false, false,
    false, false, true, false, false)), (String ((Ascii (false, true, false,
    false, false, true, true, false)), (String ((Ascii (true, false, true,
    false, true, true, true, false)), (String ((Ascii (false, true, true,
    false, false, true, true, false)), (String ((Ascii (false, true, true,
    false, false, true, true, false)), (String ((Ascii (true, false, true,
    false, false, true, true, false)), (String ((Ascii (false, true, false,
    false, true, true, true, false)), (String ((Ascii (false, false, false,
    false, false, true, false, false)), (String ((Ascii (false, false, true,
    true, false, true, true, false)), (String ((Ascii (true, false, true,
    false, false, true, true, false)), (String ((Ascii (true, true, false,
    false, true, true, true, false)), (String ((Ascii (true, true, false,
    false, true, true, true, false)), (String ((Ascii (false, false, false,
    false, false, true, false, false)), (String ((Ascii (false, false, true,
    false, true, true, true, false)), (String ((Ascii (false, false, false,
    true, false, true, true, false)), (String ((Ascii (true, false, true,
    false, false, true, true, false)), (String ((Ascii (false, false, false,
    false, false, true, false, false)), (String ((Ascii (false, false, false,
    true, true, false, true, false)), (String ((Ascii (true, true, true,
    false, false, false, true, false)), (String ((Ascii (true, false, true,
    false, false, false, true, false)), (String ((Ascii (true, false, true,
    true, false, false, true, false)), (String ((Ascii (false, false, false,
    false, false, true, false, false)), (String ((Ascii (false, false, false,
    true, false, true, true, false)), (String ((Ascii (true, false, true,
    false, false, true, true, false)), (String ((Ascii (true, false, false,
    false, false, true, true, false)), (String ((Ascii (false, false, true,
    false, false, true, true, false)), (String ((Ascii (true, false, true,
    false, false, true, true, false)), (String ((Ascii (false, true, false,
    false, true, true, true, false)), (String ((Ascii (true, false, false,
    true, false, true, false, false)),
    EmptyString))))))))))))))))))))))))))))))))))))))))))))))))))))))))))))))))))))))))))))))))))))))))))))))))))))))))))))));
    r_cond =
    (cipherLenBetween N0 (Npos (XO (XO (XO (XO (XO (XO (XO (XO (XO (XO (XO
      (XO (XO (XO XH)))))))))))))))); r_err =
    iMB_ERR_JOB_CIPH_LEN } :: ({ r_name = (String ((Ascii (true, false,
    false, false, false, false, true, false)), (String ((Ascii (true, false,
    true, false, false, false, true, false)), (String ((Ascii (true, true,
    false, false, true, false, true, false)), (String ((Ascii (true, false,
    true, true, false, true, false, false)), (String ((Ascii (true, false,
    false, false, true, true, false, false)), (String ((Ascii (false, true,
    false, false, true, true, false, false)), (String ((Ascii (false, false,
    false, true, true, true, false, false)), (String ((Ascii (false, false,
    false, false, false, true, false, false)), (String ((Ascii (true, true,
    false, true, false, true, true, false)), (String ((Ascii (true, false,
    true, false, false, true, true, false)), (String ((Ascii (true, false,
    false, true, true, true, true, false)), (String ((Ascii (false, false,
    false, false, false, true, false, false)), (String ((Ascii (true, true,
    true, false, true, true, true, false)), (String ((Ascii (false, false,
    false, true, false, true, true, false)), (String ((Ascii (true, false,
    true, false, false, true, true, false)), (String ((Ascii (false, true,
    true, true, false, true, true, false)), (String ((Ascii (false, false,
    false, false, false, true, false, false)), (String ((Ascii (true, true,
    false, false, false, true, true, false)), (String ((Ascii (true, false,
    false, true, false, true, true, false)), (String ((Ascii (false, false,
    false, false, true, true, true, false)), (String ((Ascii (false, false,
    false, true, false, true, true, false)), (String ((Ascii (true, false,
    true, false, false, true, true, false)), (String ((Ascii (false, true,
    false, false, true, true, true, false)), (String ((Ascii (true, false,
    false, true, false, true, true, false)), (String ((Ascii (false, true,
    true, true, false, true, true, false)), (String ((Ascii (true, true,
    true, false, false, true, true, false)),
    EmptyString)))))))))))))))))))))))))))))))))))))))))))))))))))); r_cond =
    (When (cipherLenNonZero,
    (keyLenIn ((Npos (XO (XO (XO (XO XH))))) :: [])))); r_err =
    iMB_ERR_JOB_KEY_LEN } :: ({ r_name = (String ((Ascii (true, false, false,
    false, true, true, false, false)), (String ((Ascii (false, true, true,
    false, true, true, false, false)), (String ((Ascii (true, false, true,
    true, false, true, false, false)), (String ((Ascii (false, true, false,
    false, false, true, true, false)), (String ((Ascii (true, false, false,
    true, true, true, true, false)), (String ((Ascii (false, false, true,
    false, true, true, true, false)), (String ((Ascii (true, false, true,
    false, false, true, true, false)), (String ((Ascii (false, false, false,
    false, false, true, false, false)), (String ((Ascii (true, false, false,
    true, false, false, true, false)), (String ((Ascii (false, true, true,
    false, true, false, true, false)), (String ((Ascii (false, false, false,
    false, false, true, false, false)), (String ((Ascii (true, true, true,
    false, true, true, true, false)), (String ((Ascii (false, false, false,
    true, false, true, true, false)), (String ((Ascii (true, false, true,
    false, false, true, true, false)), (String ((Ascii (false, true, true,
    true, false, true, true, false)), (String ((Ascii (false, false, false,
    false, false, true, false, false)), (String ((Ascii (true, true, false,
    false, false, true, true, false)), (String ((Ascii (true, false, false,
    true, false, true, true, false)), (String ((Ascii (false, false, false,
    false, true, true, true, false)), (String ((Ascii (false, false, false,
    true, false, true, true, false)), (String ((Ascii (true, false, true,
    false, false, true, true, false)), (String ((Ascii (false, true, false,
    false, true, true, true, false)), (String ((Ascii (true, false, false,
    true, false, true, true, false)), (String ((Ascii (false, true, true,
    true, false, true, true, false)), (String ((Ascii (true, true, true,
    false, false, true, true, false)),
    EmptyString)))))))))))))))))))))))))))))))))))))))))))))))))); r_cond =
    (When (cipherLenNonZero,
    (ivLenIn ((Npos (XO (XO (XO (XO XH))))) :: [])))); r_err =
    iMB_ERR_JOB_IV_LEN } :: ({ r_name = (String ((Ascii (true, false, false,
    true, false, true, true, false)), (String ((Ascii (false, true, true,
    false, true, true, true, false)), (String ((Ascii (false, false, false,
    false, false, true, false, false)), (String ((Ascii (true, false, false,
    false, false, true, false, false)), (String ((Ascii (true, false, true,
    true, true, true, false, false)), (String ((Ascii (false, false, false,
    false, false, true, false, false)), (String ((Ascii (false, true, true,
    true, false, false, true, false)), (String ((Ascii (true, false, true,
    false, true, false, true, false)), (String ((Ascii (false, false, true,
    true, false, false, true, false)), (String ((Ascii (false, false, true,
    true, false, false, true, false)), (String ((Ascii (false, false, false,
    false, false, true, false, false)), (String ((Ascii (true, true, true,
    false, true, true, true, false)), (String ((Ascii (false, false, false,
    true, false, true, true, false)), (String ((Ascii (true, false, true,
    false, false, true, true, false)), (String ((Ascii (false, true, true,
    true, false, true, true, false)), (String ((Ascii (false, false, false,
    false, false, true, false, false)), (String ((Ascii (true, true, false,
    false, false, true, true, false)), (String ((Ascii (true, false, false,
    true, false, true, true, false)), (String ((Ascii (false, false, false,
    false, true, true, true, false)), (String ((Ascii (false, false, false,
    true, false, true, true, false)), (String ((Ascii (true, false, true,
    false, false, true, true, false)), (String ((Ascii (false, true, false,
    false, true, true, true, false)), (String ((Ascii (true, false, false,
    true, false, true, true, false)), (String ((Ascii (false, true, true,
    true, false, true, true, false)), (String ((Ascii (true, true, true,
    false, false, true, true, false)),
    EmptyString)))))))))))))))))))))))))))))))))))))))))))))))))); r_cond =
    (When (cipherLenNonZero, (NonNull (fun j -> j.jv_iv)))); r_err =
    iMB_ERR_JOB_NULL_IV } :: ({ r_name = (String ((Ascii (true, false, true,
    false, false, true, true, false)), (String ((Ascii (false, true, true,
    true, false, true, true, false)), (String ((Ascii (true, true, false,
    false, false, true, true, false)), (String ((Ascii (true, true, true,
    true, true, false, true, false)), (String ((Ascii (true, true, false,
    true, false, true, true, false)), (String ((Ascii (true, false, true,
    false, false, true, true, false)), (String ((Ascii (true, false, false,
    true, true, true, true, false)), (String ((Ascii (true, true, false,
    false, true, true, true, false)), (String ((Ascii (false, false, false,
    false, false, true, false, false)), (String ((Ascii (true, false, false,
    false, false, true, false, false)), (String ((Ascii (true, false, true,
    true, true, true, false, false)), (String ((Ascii (false, false, false,
    false, false, true, false, false)), (String ((Ascii (false, true, true,
    true, false, false, true, false)), (String ((Ascii (true, false, true,
    false, true, false, true, false)), (String ((Ascii (false, false, true,
    true, false, false, true, false)), (String ((Ascii (false, false, true,
    true, false, false, true, false)), (String ((Ascii (false, false, false,
    false, false, true, false, false)), (String ((Ascii (true, true, true,
    false, true, true, true, false)), (String ((Ascii (false, false, false,
    true, false, true, true, false)), (String ((Ascii (true, false, true,
    false, false, true, true, false)), (String ((Ascii (false, true, true,
    true, false, true, true, false)), (String ((Ascii (false, false, false,
    false, false, true, false, false)), (String ((Ascii (true, true, false,
    false, false, true, true, false)), (String ((Ascii (true, false, false,
    true, false, true, true, false)), (String ((Ascii (false, false, false,
    false, true, true, true, false)), (String ((Ascii (false, false, false,
    true, false, true, true, false)), (String ((Ascii (true, false, true,
    false, false, true, true, false)), (String ((Ascii (false, true, false,
    false, true, true, true, false)), (String ((Ascii (true, false, false,
    true, false, true, true, false)), (String ((Ascii (false, true, true,
    true, false, true, true, false)), (String ((Ascii (true, true, true,
    false, false, true, true, false)),
    EmptyString))))))))))))))))))))))))))))))))))))))))))))))))))))))))))))));
    r_cond = (When (cipherLenNonZero, (NonNull (fun j -> j.jv_enc_keys))));
    r_err = iMB_ERR_JOB_NULL_KEY } :: ({ r_name = (String ((Ascii (false,
    false, false, false, true, false, true, false)), (String ((Ascii (false,
    false, true, true, false, false, true, false)), (String ((Ascii (true,
    false, false, true, false, false, true, false)), (String ((Ascii (false,
    false, false, false, false, true, false, false)), (String ((Ascii (true,
    true, false, false, false, true, true, false)), (String ((Ascii (true,
    true, true, true, false, true, true, false)), (String ((Ascii (false,
    true, true, true, false, true, true, false)), (String ((Ascii (true,
    true, false, false, true, true, true, false)), (String ((Ascii (true,
    false, false, true, false, true, true, false)), (String ((Ascii (true,
    true, false, false, true, true, true, false)), (String ((Ascii (false,
    false, true, false, true, true, true, false)), (String ((Ascii (true,
    false, true, false, false, true, true, false)), (String ((Ascii (false,
    true, true, true, false, true, true, false)), (String ((Ascii (false,
    false, true, false, true, true, true, false)), (String ((Ascii (false,
    false, false, false, false, true, false, false)), (String ((Ascii (true,
    true, true, false, true, true, true, false)), (String ((Ascii (true,
    false, false, true, false, true, true, false)), (String ((Ascii (false,
    false, true, false, true, true, true, false)), (String ((Ascii (false,
    false, false, true, false, true, true, false)), (String ((Ascii (false,
    false, false, false, false, true, false, false)), (String ((Ascii (false,
    false, true, false, true, true, true, false)), (String ((Ascii (false,
    false, false, true, false, true, true, false)), (String ((Ascii (true,
    false, true, false, false, true, true, false)), (String ((Ascii (false,
    false, false, false, false, true, false, false)), (String ((Ascii (false,
    false, false, false, true, true, true, false)), (String ((Ascii (true,
    false, false, false, false, true, true, false)), (String ((Ascii (true,
    false, false, true, true, true, true, false)), (String ((Ascii (false,
    false, true, true, false, true, true, false)), (String ((Ascii (true,
    true, true, true, false, true, true, false)), (String ((Ascii (true,
    false, false, false, false, true, true, false)), (String ((Ascii (false,
    false, true, false, false, true, true, false)), (String ((Ascii (false,
    false, false, false, false, true, false, false)), (String ((Ascii (false,
    false, true, true, false, true, true, false)), (String ((Ascii (true,
    false, true, false, false, true, true, false)), (String ((Ascii (false,
    true, true, true, false, true, true, false)), (String ((Ascii (true,
    true, true, false, false, true, true, false)), (String ((Ascii (false,
    false, true, false, true, true, true, false)), (String ((Ascii (false,
    false, false, true, false, true, true, false)), (String ((Ascii (false,
    false, false, false, false, true, false, false)), (String ((Ascii (false,
    false, false, true, false, true, false, false)), (String ((Ascii (false,
    true, true, false, false, true, true, false)), (String ((Ascii (false,
    true, false, false, true, true, true, false)), (String ((Ascii (true,
    false, false, false, false, true, true, false)), (String ((Ascii (true,
    false, true, true, false, true, true, false)), (String ((Ascii (true,
    false, true, false, false, true, true, false)), (String ((Ascii (false,
    false, false, false, false, true, false, false)), (String ((Ascii (false,
    false, false, true, false, true, true, false)), (String ((Ascii (true,
    true, true, true, false, true, true, false)), (String ((Ascii (false,
    false, true, true, false, true, true, false)), (String ((Ascii (false,
    false, true, false, false, true, true, false)), (String ((Ascii (true,
    true, false, false, true, true, true, false)), (String ((Ascii (false,
    false, false, false, false, true, false, false)), (String ((Ascii (true,
    false, false, false, false, true, true, false)), (String ((Ascii (false,
    true, true, true, false, true, true, false)), (String ((Ascii (false,
    false, false, false, false, true, false, false)), (String ((Ascii (false,
    false, false, true, true, false, true, false)), (String ((Ascii (true,
    true, true, false, false, false, true, false)), (String ((Ascii (true,
    false, true, false, false, false, true, false)), (String ((Ascii (true,
    false, true, true, false, false, true, false)), (String ((Ascii (false,
    false, false, false, false, true, false, false)), (String ((Ascii (false,
    false, false, true, false, true, true, false)), (String ((Ascii (true,
    false, true, false, false, true, true, false)), (String ((Ascii (true,
    false, false, false, false, true, true, false)), (String ((Ascii (false,
    false, true, false, false, true, true, false)), (String ((Ascii (true,
    false, true, false, false, true, true, false)), (String ((Ascii (false,
    true, false, false, true, true, true, false)), (String ((Ascii (true,
    false, false, true, false, true, false, false)),
    EmptyString))))))))))))))))))))))))))))))))))))))))))))))))))))))))))))))))))))))))))))))))))))))))))))))))))))))))))))))))))))))))))))))))))))));
    r_cond = (When ((Either ((ValAtLeast ((fun j -> j.jv_msg_len_to_cipher),
    (Npos (XO (XO XH))))), (ValAtLeast ((fun j -> j.jv_msg_len_to_hash),
    (Npos (XO (XO (XO XH)))))))), PonPliFits)); r_err =
    iMB_ERR_JOB_PON_PLI } :: []))))))))))

(** val rules_ZUC_EEA3 : rule list **)

let rules_ZUC_EEA3 =
  r_src :: (r_dst :: (r_iv :: (r_enc_keys :: ((r_key_len ((Npos (XO (XO (XO
                                                (XO XH))))) :: ((Npos (XO (XO
                                                (XO (XO (XO XH)))))) :: []))) :: (
    (r_cipher_len (Npos XH) (Npos (XO (XO (XI (XI (XI (XI (XI (XI (XI (XI (XI
      (XI XH)))))))))))))) :: ({ r_name = (String ((Ascii (false, true,
    false, true, true, false, true, false)), (String ((Ascii (true, false,
    true, false, true, false, true, false)), (String ((Ascii (true, true,
    false, false, false, false, true, false)), (String ((Ascii (true, false,
    true, true, false, true, false, false)), (String ((Ascii (true, false,
    false, false, true, true, false, false)), (String ((Ascii (false, true,
    false, false, true, true, false, false)), (String ((Ascii (false, false,
    false, true, true, true, false, false)), (String ((Ascii (false, true,
    false, true, true, true, false, false)), (String ((Ascii (false, false,
    false, false, false, true, false, false)), (String ((Ascii (true, false,
    false, false, true, true, false, false)), (String ((Ascii (false, true,
    true, false, true, true, false, false)), (String ((Ascii (true, false,
    true, true, false, true, false, false)), (String ((Ascii (false, true,
    false, false, false, true, true, false)), (String ((Ascii (true, false,
    false, true, true, true, true, false)), (String ((Ascii (false, false,
    true, false, true, true, true, false)), (String ((Ascii (true, false,
    true, false, false, true, true, false)), (String ((Ascii (false, false,
    false, false, false, true, false, false)), (String ((Ascii (true, false,
    false, true, false, false, true, false)), (String ((Ascii (false, true,
    true, false, true, false, true, false)),
    EmptyString)))))))))))))))))))))))))))))))))))))); r_cond = (When
    ((keyLenIn ((Npos (XO (XO (XO (XO XH))))) :: [])),
    (ivLenIn ((Npos (XO (XO (XO (XO XH))))) :: [])))); r_err =
    iMB_ERR_JOB_IV_LEN } :: ({ r_name = (String ((Ascii (false, true, false,
    true, true, false, true, false)), (String ((Ascii (true, false, true,
    false, true, false, true, false)), (String ((Ascii (true, true, false,
    false, false, false, true, false)), (String ((Ascii (true, false, true,
    true, false, true, false, false)), (String ((Ascii (false, true, false,
    false, true, true, false, false)), (String ((Ascii (true, false, true,
    false, true, true, false, false)), (String ((Ascii (false, true, true,
    false, true, true, false, false)), (String ((Ascii (false, true, false,
    true, true, true, false, false)), (String ((Ascii (false, false, false,
    false, false, true, false, false)), (String ((Ascii (false, true, false,
    false, true, true, false, false)), (String ((Ascii (true, true, false,
    false, true, true, false, false)), (String ((Ascii (true, false, true,
    true, false, true, false, false)), (String ((Ascii (false, false, false,
    false, false, true, false, false)), (String ((Ascii (true, true, true,
    true, false, true, true, false)), (String ((Ascii (false, true, false,
    false, true, true, true, false)), (String ((Ascii (false, false, false,
    false, false, true, false, false)), (String ((Ascii (false, true, false,
    false, true, true, false, false)), (String ((Ascii (true, false, true,
    false, true, true, false, false)), (String ((Ascii (true, false, true,
    true, false, true, false, false)), (String ((Ascii (false, true, false,
    false, false, true, true, false)), (String ((Ascii (true, false, false,
    true, true, true, true, false)), (String ((Ascii (false, false, true,
    false, true, true, true, false)), (String ((Ascii (true, false, true,
    false, false, true, true, false)), (String ((Ascii (false, false, false,
    false, false, true, false, false)), (String ((Ascii (true, false, false,
    true, false, false, true, false)), (String ((Ascii (false, true, true,
    false, true, false, true, false)),
    EmptyString)))))))))))))))))))))))))))))))))))))))))))))))))))); r_cond =
    (When ((keyLenIn ((Npos (XO (XO (XO (XO (XO XH)))))) :: [])),
    (ivLenIn ((Npos (XI (XI (XI (XO XH))))) :: ((Npos (XI (XO (XO (XI
      XH))))) :: []))))); r_err = iMB_ERR_JOB_IV_LEN } :: [])))))))

(** val rules_SNOW3G_UEA2 : rule list **)

let rules_SNOW3G_UEA2 =
  r_src :: (r_dst :: (r_iv :: (r_enc_keys :: ((r_key_len ((Npos (XO (XO (XO
                                                (XO XH))))) :: [])) :: (
    (r_cipher_len (Npos XH) (Npos (XI (XI (XI (XI (XI (XI (XI (XI (XI (XI (XI
      (XI (XI (XI (XI (XI (XI (XI (XI (XI (XI (XI (XI (XI (XI (XI (XI (XI (XI
      (XI (XI XH))))))))))))))))))))))))))))))))) :: ((r_iv_len ((Npos (XO
                                                        (XO (XO (XO
                                                        XH))))) :: [])) :: []))))))

(** val rules_KASUMI_UEA1 : rule list **)

let rules_KASUMI_UEA1 =
  r_src :: (r_dst :: (r_iv :: (r_enc_keys :: ((r_key_len ((Npos (XO (XO (XO
                                                (XO XH))))) :: [])) :: (
    (r_cipher_len (Npos XH) (Npos (XO (XO (XO (XO (XO (XI (XO (XO (XO (XI (XI
      (XI (XO (XO XH)))))))))))))))) :: ((r_iv_len ((Npos (XO (XO (XO
                                           XH)))) :: [])) :: []))))))

(** val rules_CHACHA20 : rule list **)

let rules_CHACHA20 =
  r_src :: (r_dst :: (r_iv :: (r_enc_keys :: ((r_key_len ((Npos (XO (XO (XO
                                                (XO (XO XH)))))) :: [])) :: (
    (r_cipher_len (Npos XH) iMB_CHACHA20_POLY1305_MAX_LEN) :: ((r_iv_len
                                                                 ((Npos (XO
                                                                 (XO (XI
                                                                 XH)))) :: [])) :: []))))))

(** val rules_CHACHA20_POLY1305 : rule list **)

let rules_CHACHA20_POLY1305 =
  r_src_if_len :: (r_dst_if_len :: (r_iv :: (r_enc_keys :: ((r_key_len ((Npos
                                                              (XO (XO (XO (XO
                                                              (XO
                                                              XH)))))) :: [])) :: (
    (r_cipher_len N0 iMB_CHACHA20_POLY1305_MAX_LEN) :: ((r_iv_len ((Npos (XO
                                                          (XO (XI
                                                          XH)))) :: [])) :: (
    (r_pair_hash iMB_AUTH_CHACHA20_POLY1305) :: [])))))))

(** val rules_CHACHA20_POLY1305_SGL : rule list **)

let rules_CHACHA20_POLY1305_SGL =
  app
    (r_iv :: ((r_iv_len ((Npos (XO (XO (XI XH)))) :: [])) :: (r_enc_keys :: (
    (r_key_len ((Npos (XO (XO (XO (XO (XO XH)))))) :: [])) :: ((r_pair_hash
                                                                 iMB_AUTH_CHACHA20_POLY1305_SGL) :: [])))))
    (sgl_rules iMB_CHACHA20_POLY1305_MAX_LEN)

(** val rules_SNOW_V : rule list **)

let rules_SNOW_V =
  r_src_if_len :: (r_dst_if_len :: (r_iv :: (r_enc_keys :: ((r_key_len ((Npos
                                                              (XO (XO (XO (XO
                                                              (XO
                                                              XH)))))) :: [])) :: (
    (r_iv_len ((Npos (XO (XO (XO (XO XH))))) :: [])) :: [])))))

(** val rules_SNOW_V_AEAD : rule list **)

let rules_SNOW_V_AEAD =
  app rules_SNOW_V ((r_pair_hash iMB_AUTH_SNOW_V_AEAD) :: [])

(** val rules_SM4_ECB : rule list **)

let rules_SM4_ECB =
  r_src :: (r_dst :: (r_enc_keys_if_enc :: (r_dec_keys_if_dec :: ((r_key_len
                                                                    ((Npos
                                                                    (XO (XO
                                                                    (XO (XO
                                                                    XH))))) :: [])) :: (
    (r_cipher_len_min (Npos XH)) :: ((r_cipher_len_mult (Npos (XO (XO (XO (XO
                                       XH)))))) :: []))))))

(** val rules_SM4_CBC : rule list **)

let rules_SM4_CBC =
  app
    ((r_iv_len ((Npos (XO (XO (XO (XO XH))))) :: [])) :: (r_iv :: ({ r_name =
    (String ((Ascii (false, false, true, true, false, true, true, false)),
    (String ((Ascii (true, false, true, false, false, true, true, false)),
    (String ((Ascii (false, true, true, true, false, true, true, false)),
    (String ((Ascii (true, true, true, false, false, true, true, false)),
    (String ((Ascii (false, false, true, false, true, true, true, false)),
    (String ((Ascii (false, false, false, true, false, true, true, false)),
    (String ((Ascii (false, false, false, false, false, true, false, false)),
    (String ((Ascii (true, true, true, false, true, true, true, false)),
    (String ((Ascii (true, false, false, true, false, true, true, false)),
    (String ((Ascii (false, false, true, false, true, true, true, false)),
    (String ((Ascii (false, false, false, true, false, true, true, false)),
    (String ((Ascii (true, false, false, true, false, true, true, false)),
    (String ((Ascii (false, true, true, true, false, true, true, false)),
    (String ((Ascii (false, false, false, false, false, true, false, false)),
    (String ((Ascii (false, false, true, false, true, true, true, false)),
    (String ((Ascii (false, false, false, true, false, true, true, false)),
    (String ((Ascii (true, false, true, false, false, true, true, false)),
    (String ((Ascii (false, false, false, false, false, true, false, false)),
    (String ((Ascii (false, false, false, true, false, true, false, false)),
    (String ((Ascii (false, true, true, false, false, true, true, false)),
    (String ((Ascii (true, false, true, false, true, true, true, false)),
    (String ((Ascii (false, false, true, false, true, true, true, false)),
    (String ((Ascii (true, false, true, false, true, true, true, false)),
    (String ((Ascii (false, true, false, false, true, true, true, false)),
    (String ((Ascii (true, false, true, false, false, true, true, false)),
    (String ((Ascii (true, false, false, true, false, true, false, false)),
    (String ((Ascii (false, false, false, false, false, true, false, false)),
    (String ((Ascii (true, false, true, true, false, true, true, false)),
    (String ((Ascii (true, false, true, false, true, true, true, false)),
    (String ((Ascii (false, false, true, true, false, true, true, false)),
    (String ((Ascii (false, false, true, false, true, true, true, false)),
    (String ((Ascii (true, false, false, true, false, true, true, false)),
    (String ((Ascii (true, false, true, true, false, true, false, false)),
    (String ((Ascii (false, true, false, false, false, true, true, false)),
    (String ((Ascii (true, false, true, false, true, true, true, false)),
    (String ((Ascii (false, true, true, false, false, true, true, false)),
    (String ((Ascii (false, true, true, false, false, true, true, false)),
    (String ((Ascii (true, false, true, false, false, true, true, false)),
    (String ((Ascii (false, true, false, false, true, true, true, false)),
    (String ((Ascii (false, false, false, false, false, true, false, false)),
    (String ((Ascii (false, false, true, true, false, true, true, false)),
    (String ((Ascii (true, false, false, true, false, true, true, false)),
    (String ((Ascii (true, false, true, true, false, true, true, false)),
    (String ((Ascii (true, false, false, true, false, true, true, false)),
    (String ((Ascii (false, false, true, false, true, true, true, false)),
    EmptyString))))))))))))))))))))))))))))))))))))))))))))))))))))))))))))))))))))))))))))))))))))))))));
    r_cond = (cipherLenBetween N0 mB_MAX_LEN16); r_err =
    iMB_ERR_JOB_CIPH_LEN } :: []))) rules_SM4_ECB

(** val rules_SM4_CNTR : rule list **)

let rules_SM4_CNTR =
  r_src :: (r_dst :: (r_iv :: (r_enc_keys :: ((r_key_len ((Npos (XO (XO (XO
                                                (XO XH))))) :: [])) :: (
    (r_iv_len ((Npos (XO (XO (XI XH)))) :: ((Npos (XO (XO (XO (XO
      XH))))) :: []))) :: ((r_cipher_len_min (Npos XH)) :: []))))))

(** val rules_CFB : rule list **)

let rules_CFB =
  r_src_if_len :: (r_dst_if_len :: (r_iv :: (r_enc_keys_if_enc :: (r_dec_keys_if_dec :: (
    (r_key_len ((Npos (XO (XO (XO (XO XH))))) :: ((Npos (XO (XO (XO (XI
      XH))))) :: ((Npos (XO (XO (XO (XO (XO XH)))))) :: [])))) :: ((r_iv_len
                                                                    ((Npos
                                                                    (XO (XO
                                                                    (XO (XO
                                                                    XH))))) :: [])) :: (
    (r_cipher_len_mult (Npos (XO (XO (XO (XO XH)))))) :: [])))))))

(** val cipher_catalogue : (n * rule list) list **)

let cipher_catalogue =
  (iMB_CIPHER_CBC, rules_CBC) :: ((iMB_CIPHER_CNTR,
    rules_CNTR) :: ((iMB_CIPHER_NULL,
    rules_NULL) :: ((iMB_CIPHER_DOCSIS_SEC_BPI,
    rules_DOCSIS_SEC_BPI) :: ((iMB_CIPHER_GCM,
    rules_GCM) :: ((iMB_CIPHER_CUSTOM, rules_CUSTOM) :: ((iMB_CIPHER_DES,
    rules_DES) :: ((iMB_CIPHER_DOCSIS_DES,
    rules_DOCSIS_DES) :: ((iMB_CIPHER_CCM, rules_CCM) :: ((iMB_CIPHER_DES3,
    rules_DES3) :: ((iMB_CIPHER_PON_AES_CNTR, rules_PON) :: ((iMB_CIPHER_ECB,
    rules_ECB) :: ((iMB_CIPHER_CNTR_BITLEN,
    rules_CNTR_BITLEN) :: ((iMB_CIPHER_ZUC_EEA3,
    rules_ZUC_EEA3) :: ((iMB_CIPHER_SNOW3G_UEA2_BITLEN,
    rules_SNOW3G_UEA2) :: ((iMB_CIPHER_KASUMI_UEA1_BITLEN,
    rules_KASUMI_UEA1) :: ((iMB_CIPHER_CBCS_1_9,
    rules_CBCS_1_9) :: ((iMB_CIPHER_CHACHA20,
    rules_CHACHA20) :: ((iMB_CIPHER_CHACHA20_POLY1305,
    rules_CHACHA20_POLY1305) :: ((iMB_CIPHER_CHACHA20_POLY1305_SGL,
    rules_CHACHA20_POLY1305_SGL) :: ((iMB_CIPHER_SNOW_V,
    rules_SNOW_V) :: ((iMB_CIPHER_SNOW_V_AEAD,
    rules_SNOW_V_AEAD) :: ((iMB_CIPHER_GCM_SGL,
    rules_GCM_SGL) :: ((iMB_CIPHER_SM4_ECB,
    rules_SM4_ECB) :: ((iMB_CIPHER_SM4_CBC,
    rules_SM4_CBC) :: ((iMB_CIPHER_CFB, rules_CFB) :: ((iMB_CIPHER_SM4_CNTR,
    rules_SM4_CNTR) :: ((iMB_CIPHER_SM4_GCM,
    rules_SM4_GCM) :: [])))))))))))))))))))))))))))

(** val rules_HMAC : n -> n -> rule list **)

let rules_HMAC trunc full =
  r_hash_src :: ((r_tag_len (trunc :: (full :: []))) :: ((r_hash_len (Npos
                                                           XH) mB_MAX_LEN16) :: (r_tag :: ({ r_name =
    (String ((Ascii (true, false, false, true, false, true, true, false)),
    (String ((Ascii (false, false, false, false, true, true, true, false)),
    (String ((Ascii (true, false, false, false, false, true, true, false)),
    (String ((Ascii (false, false, true, false, false, true, true, false)),
    (String ((Ascii (false, false, false, false, false, true, false, false)),
    (String ((Ascii (true, false, false, false, false, true, false, false)),
    (String ((Ascii (true, false, true, true, true, true, false, false)),
    (String ((Ascii (false, false, false, false, false, true, false, false)),
    (String ((Ascii (false, true, true, true, false, false, true, false)),
    (String ((Ascii (true, false, true, false, true, false, true, false)),
    (String ((Ascii (false, false, true, true, false, false, true, false)),
    (String ((Ascii (false, false, true, true, false, false, true, false)),
    EmptyString)))))))))))))))))))))))); r_cond = (NonNull (fun j ->
    j.jv_u0)); r_err = iMB_ERR_JOB_NULL_HMAC_IPAD } :: ({ r_name = (String
    ((Ascii (true, true, true, true, false, true, true, false)), (String
    ((Ascii (false, false, false, false, true, true, true, false)), (String
    ((Ascii (true, false, false, false, false, true, true, false)), (String
    ((Ascii (false, false, true, false, false, true, true, false)), (String
    ((Ascii (false, false, false, false, false, true, false, false)), (String
    ((Ascii (true, false, false, false, false, true, false, false)), (String
    ((Ascii (true, false, true, true, true, true, false, false)), (String
    ((Ascii (false, false, false, false, false, true, false, false)), (String
    ((Ascii (false, true, true, true, false, false, true, false)), (String
    ((Ascii (true, false, true, false, true, false, true, false)), (String
    ((Ascii (false, false, true, true, false, false, true, false)), (String
    ((Ascii (false, false, true, true, false, false, true, false)),
    EmptyString)))))))))))))))))))))))); r_cond = (NonNull (fun j ->
    j.jv_u1)); r_err = iMB_ERR_JOB_NULL_HMAC_OPAD } :: [])))))

(** val rules_XCBC : rule list **)

let rules_XCBC =
  r_hash_src :: ((r_tag_len ((Npos (XO (XO (XI XH)))) :: [])) :: (r_tag :: (
    (r_hash_len N0 mB_MAX_LEN16) :: ({ r_name = (String ((Ascii (true, true,
    false, true, false, true, true, false)), (String ((Ascii (true, false,
    false, false, true, true, false, false)), (String ((Ascii (true, true,
    true, true, true, false, true, false)), (String ((Ascii (true, false,
    true, false, false, true, true, false)), (String ((Ascii (false, false,
    false, true, true, true, true, false)), (String ((Ascii (false, false,
    false, false, true, true, true, false)), (String ((Ascii (true, false,
    false, false, false, true, true, false)), (String ((Ascii (false, true,
    true, true, false, true, true, false)), (String ((Ascii (false, false,
    true, false, false, true, true, false)), (String ((Ascii (true, false,
    true, false, false, true, true, false)), (String ((Ascii (false, false,
    true, false, false, true, true, false)), (String ((Ascii (false, false,
    false, false, false, true, false, false)), (String ((Ascii (true, false,
    false, false, false, true, false, false)), (String ((Ascii (true, false,
    true, true, true, true, false, false)), (String ((Ascii (false, false,
    false, false, false, true, false, false)), (String ((Ascii (false, true,
    true, true, false, false, true, false)), (String ((Ascii (true, false,
    true, false, true, false, true, false)), (String ((Ascii (false, false,
    true, true, false, false, true, false)), (String ((Ascii (false, false,
    true, true, false, false, true, false)),
    EmptyString)))))))))))))))))))))))))))))))))))))); r_cond = (NonNull
    (fun j -> j.jv_u0)); r_err =
    iMB_ERR_JOB_NULL_XCBC_K1_EXP } :: ({ r_name = (String ((Ascii (true,
    true, false, true, false, true, true, false)), (String ((Ascii (false,
    true, false, false, true, true, false, false)), (String ((Ascii (false,
    false, false, false, false, true, false, false)), (String ((Ascii (true,
    false, false, false, false, true, false, false)), (String ((Ascii (true,
    false, true, true, true, true, false, false)), (String ((Ascii (false,
    false, false, false, false, true, false, false)), (String ((Ascii (false,
    true, true, true, false, false, true, false)), (String ((Ascii (true,
    false, true, false, true, false, true, false)), (String ((Ascii (false,
    false, true, true, false, false, true, false)), (String ((Ascii (false,
    false, true, true, false, false, true, false)),
    EmptyString)))))))))))))))))))); r_cond = (NonNull (fun j -> j.jv_u1));
    r_err = iMB_ERR_JOB_NULL_XCBC_K2 } :: ({ r_name = (String ((Ascii (true,
    true, false, true, false, true, true, false)), (String ((Ascii (true,
    true, false, false, true, true, false, false)), (String ((Ascii (false,
    false, false, false, false, true, false, false)), (String ((Ascii (true,
    false, false, false, false, true, false, false)), (String ((Ascii (true,
    false, true, true, true, true, false, false)), (String ((Ascii (false,
    false, false, false, false, true, false, false)), (String ((Ascii (false,
    true, true, true, false, false, true, false)), (String ((Ascii (true,
    false, true, false, true, false, true, false)), (String ((Ascii (false,
    false, true, true, false, false, true, false)), (String ((Ascii (false,
    false, true, true, false, false, true, false)),
    EmptyString)))))))))))))))))))); r_cond = (NonNull (fun j -> j.jv_u2));
    r_err = iMB_ERR_JOB_NULL_XCBC_K3 } :: []))))))

(** val rules_AUTH_NULL : rule list **)

let rules_AUTH_NULL =
  []

(** val rules_CRC : rule list **)

let rules_CRC =
  r_hash_src_if_len :: (r_tag :: ((r_tag_len ((Npos (XO (XO XH))) :: [])) :: []))

(** val rules_AES_GMAC : rule list **)

let rules_AES_GMAC =
  (r_tag_len_between (Npos XH) (Npos (XO (XO (XO (XO XH)))))) :: (r_aad :: (
    (r_pair_cipher iMB_CIPHER_GCM) :: (r_tag :: [])))

(** val rules_GCM_SGL_HASH : rule list **)

let rules_GCM_SGL_HASH =
  (r_pair_cipher iMB_CIPHER_GCM_SGL) :: ({ r_name = (String ((Ascii (true,
    true, false, false, true, false, true, false)), (String ((Ascii (true,
    true, true, false, false, false, true, false)), (String ((Ascii (false,
    false, true, true, false, false, true, false)), (String ((Ascii (false,
    false, false, false, false, true, false, false)), (String ((Ascii (true,
    true, false, false, false, true, true, false)), (String ((Ascii (true,
    true, true, true, false, true, true, false)), (String ((Ascii (false,
    true, true, true, false, true, true, false)), (String ((Ascii (false,
    false, true, false, true, true, true, false)), (String ((Ascii (true,
    false, true, false, false, true, true, false)), (String ((Ascii (false,
    false, false, true, true, true, true, false)), (String ((Ascii (false,
    false, true, false, true, true, true, false)), (String ((Ascii (false,
    false, false, false, false, true, false, false)), (String ((Ascii (true,
    false, false, false, false, true, false, false)), (String ((Ascii (true,
    false, true, true, true, true, false, false)), (String ((Ascii (false,
    false, false, false, false, true, false, false)), (String ((Ascii (false,
    true, true, true, false, false, true, false)), (String ((Ascii (true,
    false, true, false, true, false, true, false)), (String ((Ascii (false,
    false, true, true, false, false, true, false)), (String ((Ascii (false,
    false, true, true, false, false, true, false)),
    EmptyString)))))))))))))))))))))))))))))))))))))); r_cond = (NonNull
    (fun j -> j.jv_u2)); r_err = iMB_ERR_JOB_NULL_SGL_CTX } :: ({ r_name =
    (String ((Ascii (false, false, true, false, true, true, true, false)),
    (String ((Ascii (true, false, false, false, false, true, true, false)),
    (String ((Ascii (true, true, true, false, false, true, true, false)),
    (String ((Ascii (false, false, false, false, false, true, false, false)),
    (String ((Ascii (false, false, true, true, false, true, true, false)),
    (String ((Ascii (true, false, true, false, false, true, true, false)),
    (String ((Ascii (false, true, true, true, false, true, true, false)),
    (String ((Ascii (true, true, true, false, false, true, true, false)),
    (String ((Ascii (false, false, true, false, true, true, true, false)),
    (String ((Ascii (false, false, false, true, false, true, true, false)),
    (String ((Ascii (false, false, false, false, false, true, false, false)),
    (String ((Ascii (true, false, false, true, false, true, true, false)),
    (String ((Ascii (false, true, true, true, false, true, true, false)),
    (String ((Ascii (false, false, false, false, false, true, false, false)),
    (String ((Ascii (false, true, false, false, true, true, true, false)),
    (String ((Ascii (true, false, false, false, false, true, true, false)),
    (String ((Ascii (false, true, true, true, false, true, true, false)),
    (String ((Ascii (true, true, true, false, false, true, true, false)),
    (String ((Ascii (true, false, true, false, false, true, true, false)),
    (String ((Ascii (false, false, false, false, false, true, false, false)),
    (String ((Ascii (true, true, true, false, true, true, true, false)),
    (String ((Ascii (false, false, false, true, false, true, true, false)),
    (String ((Ascii (true, false, true, false, false, true, true, false)),
    (String ((Ascii (false, true, true, true, false, true, true, false)),
    (String ((Ascii (false, false, false, false, false, true, false, false)),
    (String ((Ascii (false, false, true, false, true, true, true, false)),
    (String ((Ascii (false, false, false, true, false, true, true, false)),
    (String ((Ascii (true, false, true, false, false, true, true, false)),
    (String ((Ascii (false, false, false, false, false, true, false, false)),
    (String ((Ascii (false, false, true, false, true, true, true, false)),
    (String ((Ascii (true, false, false, false, false, true, true, false)),
    (String ((Ascii (true, true, true, false, false, true, true, false)),
    (String ((Ascii (false, false, false, false, false, true, false, false)),
    (String ((Ascii (true, false, false, true, false, true, true, false)),
    (String ((Ascii (true, true, false, false, true, true, true, false)),
    (String ((Ascii (false, false, false, false, false, true, false, false)),
    (String ((Ascii (false, false, false, false, true, true, true, false)),
    (String ((Ascii (false, true, false, false, true, true, true, false)),
    (String ((Ascii (true, true, true, true, false, true, true, false)),
    (String ((Ascii (false, false, true, false, false, true, true, false)),
    (String ((Ascii (true, false, true, false, true, true, true, false)),
    (String ((Ascii (true, true, false, false, false, true, true, false)),
    (String ((Ascii (true, false, true, false, false, true, true, false)),
    (String ((Ascii (false, false, true, false, false, true, true, false)),
    EmptyString))))))))))))))))))))))))))))))))))))))))))))))))))))))))))))))))))))))))))))))))))))))));
    r_cond = (When ((sglStateIn (iMB_SGL_COMPLETE :: (iMB_SGL_ALL :: []))),
    (tagLenBetween (Npos XH) (Npos (XO (XO (XO (XO XH)))))))); r_err =
    iMB_ERR_JOB_AUTH_TAG_LEN } :: ({ r_name = (String ((Ascii (true, false,
    false, false, false, true, true, false)), (String ((Ascii (true, false,
    true, false, true, true, true, false)), (String ((Ascii (false, false,
    true, false, true, true, true, false)), (String ((Ascii (false, false,
    false, true, false, true, true, false)), (String ((Ascii (true, true,
    true, true, true, false, true, false)), (String ((Ascii (false, false,
    true, false, true, true, true, false)), (String ((Ascii (true, false,
    false, false, false, true, true, false)), (String ((Ascii (true, true,
    true, false, false, true, true, false)), (String ((Ascii (true, true,
    true, true, true, false, true, false)), (String ((Ascii (true, true,
    true, true, false, true, true, false)), (String ((Ascii (true, false,
    true, false, true, true, true, false)), (String ((Ascii (false, false,
    true, false, true, true, true, false)), (String ((Ascii (false, false,
    false, false, true, true, true, false)), (String ((Ascii (true, false,
    true, false, true, true, true, false)), (String ((Ascii (false, false,
    true, false, true, true, true, false)), (String ((Ascii (false, false,
    false, false, false, true, false, false)), (String ((Ascii (true, false,
    false, false, false, true, false, false)), (String ((Ascii (true, false,
    true, true, true, true, false, false)), (String ((Ascii (false, false,
    false, false, false, true, false, false)), (String ((Ascii (false, true,
    true, true, false, false, true, false)), (String ((Ascii (true, false,
    true, false, true, false, true, false)), (String ((Ascii (false, false,
    true, true, false, false, true, false)), (String ((Ascii (false, false,
    true, true, false, false, true, false)), (String ((Ascii (false, false,
    false, false, false, true, false, false)), (String ((Ascii (true, true,
    true, false, true, true, true, false)), (String ((Ascii (false, false,
    false, true, false, true, true, false)), (String ((Ascii (true, false,
    true, false, false, true, true, false)), (String ((Ascii (false, true,
    true, true, false, true, true, false)), (String ((Ascii (false, false,
    false, false, false, true, false, false)), (String ((Ascii (false, false,
    true, false, true, true, true, false)), (String ((Ascii (false, false,
    false, true, false, true, true, false)), (String ((Ascii (true, false,
    true, false, false, true, true, false)), (String ((Ascii (false, false,
    false, false, false, true, false, false)), (String ((Ascii (false, false,
    true, false, true, true, true, false)), (String ((Ascii (true, false,
    false, false, false, true, true, false)), (String ((Ascii (true, true,
    true, false, false, true, true, false)), (String ((Ascii (false, false,
    false, false, false, true, false, false)), (String ((Ascii (true, false,
    false, true, false, true, true, false)), (String ((Ascii (true, true,
    false, false, true, true, true, false)), (String ((Ascii (false, false,
    false, false, false, true, false, false)), (String ((Ascii (false, false,
    false, false, true, true, true, false)), (String ((Ascii (false, true,
    false, false, true, true, true, false)), (String ((Ascii (true, true,
    true, true, false, true, true, false)), (String ((Ascii (false, false,
    true, false, false, true, true, false)), (String ((Ascii (true, false,
    true, false, true, true, true, false)), (String ((Ascii (true, true,
    false, false, false, true, true, false)), (String ((Ascii (true, false,
    true, false, false, true, true, false)), (String ((Ascii (false, false,
    true, false, false, true, true, false)),
    EmptyString))))))))))))))))))))))))))))))))))))))))))))))))))))))))))))))))))))))))))))))))))))))))))))))));
    r_cond = (When ((sglStateIn (iMB_SGL_COMPLETE :: (iMB_SGL_ALL :: []))),
    (NonNull (fun j -> j.jv_auth_tag_output)))); r_err =
    iMB_ERR_JOB_NULL_AUTH } :: ({ r_name = (String ((Ascii (true, false,
    false, false, false, true, true, false)), (String ((Ascii (true, false,
    false, false, false, true, true, false)), (String ((Ascii (false, false,
    true, false, false, true, true, false)), (String ((Ascii (false, false,
    false, false, false, true, false, false)), (String ((Ascii (true, false,
    false, false, false, true, false, false)), (String ((Ascii (true, false,
    true, true, true, true, false, false)), (String ((Ascii (false, false,
    false, false, false, true, false, false)), (String ((Ascii (false, true,
    true, true, false, false, true, false)), (String ((Ascii (true, false,
    true, false, true, false, true, false)), (String ((Ascii (false, false,
    true, true, false, false, true, false)), (String ((Ascii (false, false,
    true, true, false, false, true, false)), (String ((Ascii (false, false,
    false, false, false, true, false, false)), (String ((Ascii (true, true,
    true, false, true, true, true, false)), (String ((Ascii (false, false,
    false, true, false, true, true, false)), (String ((Ascii (true, false,
    true, false, false, true, true, false)), (String ((Ascii (false, true,
    true, true, false, true, true, false)), (String ((Ascii (false, false,
    false, false, false, true, false, false)), (String ((Ascii (true, false,
    false, false, false, true, true, false)), (String ((Ascii (true, false,
    false, false, false, true, true, false)), (String ((Ascii (false, false,
    true, false, false, true, true, false)), (String ((Ascii (true, true,
    true, true, true, false, true, false)), (String ((Ascii (false, false,
    true, true, false, true, true, false)), (String ((Ascii (true, false,
    true, false, false, true, true, false)), (String ((Ascii (false, true,
    true, true, false, true, true, false)), (String ((Ascii (false, false,
    false, false, false, true, false, false)), (String ((Ascii (false, true,
    true, true, true, true, false, false)), (String ((Ascii (false, false,
    false, false, false, true, false, false)), (String ((Ascii (false, false,
    false, false, true, true, false, false)), (String ((Ascii (false, false,
    false, false, false, true, false, false)), (String ((Ascii (true, false,
    false, false, false, true, true, false)), (String ((Ascii (false, true,
    true, true, false, true, true, false)), (String ((Ascii (false, false,
    true, false, false, true, true, false)), (String ((Ascii (false, false,
    false, false, false, true, false, false)), (String ((Ascii (false, false,
    true, false, true, true, true, false)), (String ((Ascii (false, false,
    false, true, false, true, true, false)), (String ((Ascii (true, false,
    true, false, false, true, true, false)), (String ((Ascii (false, false,
    false, false, false, true, false, false)), (String ((Ascii (true, false,
    false, false, false, false, true, false)), (String ((Ascii (true, false,
    false, false, false, false, true, false)), (String ((Ascii (false, false,
    true, false, false, false, true, false)), (String ((Ascii (false, false,
    false, false, false, true, false, false)), (String ((Ascii (true, false,
    false, true, false, true, true, false)), (String ((Ascii (true, true,
    false, false, true, true, true, false)), (String ((Ascii (false, false,
    false, false, false, true, false, false)), (String ((Ascii (true, true,
    false, false, false, true, true, false)), (String ((Ascii (true, true,
    true, true, false, true, true, false)), (String ((Ascii (false, true,
    true, true, false, true, true, false)), (String ((Ascii (true, true,
    false, false, true, true, true, false)), (String ((Ascii (true, false,
    true, false, true, true, true, false)), (String ((Ascii (true, false,
    true, true, false, true, true, false)), (String ((Ascii (true, false,
    true, false, false, true, true, false)), (String ((Ascii (false, false,
    true, false, false, true, true, false)),
    EmptyString))))))))))))))))))))))))))))))))))))))))))))))))))))))))))))))))))))))))))))))))))))))))))))))))))))))));
    r_cond = (When ((Both
    ((sglStateIn (iMB_SGL_INIT :: (iMB_SGL_ALL :: []))), hasAad)), (NonNull
    (fun j -> j.jv_u0)))); r_err = iMB_ERR_JOB_NULL_AAD } :: []))))

(** val rules_GMAC_STANDALONE : rule list **)

let rules_GMAC_STANDALONE =
  (r_tag_len_between (Npos XH) (Npos (XO (XO (XO (XO XH)))))) :: (r_tag :: ({ r_name =
    (String ((Ascii (false, true, true, true, false, true, true, false)),
    (String ((Ascii (true, true, true, true, false, true, true, false)),
    (String ((Ascii (false, false, true, false, true, true, true, false)),
    (String ((Ascii (false, false, false, false, false, true, false, false)),
    (String ((Ascii (true, true, false, false, false, true, true, false)),
    (String ((Ascii (true, true, true, true, false, true, true, false)),
    (String ((Ascii (true, false, true, true, false, true, true, false)),
    (String ((Ascii (false, true, false, false, false, true, true, false)),
    (String ((Ascii (true, false, false, true, false, true, true, false)),
    (String ((Ascii (false, true, true, true, false, true, true, false)),
    (String ((Ascii (true, false, true, false, false, true, true, false)),
    (String ((Ascii (false, false, true, false, false, true, true, false)),
    (String ((Ascii (false, false, false, false, false, true, false, false)),
    (String ((Ascii (true, true, true, false, true, true, true, false)),
    (String ((Ascii (true, false, false, true, false, true, true, false)),
    (String ((Ascii (false, false, true, false, true, true, true, false)),
    (String ((Ascii (false, false, false, true, false, true, true, false)),
    (String ((Ascii (false, false, false, false, false, true, false, false)),
    (String ((Ascii (false, false, true, false, true, true, true, false)),
    (String ((Ascii (false, false, false, true, false, true, true, false)),
    (String ((Ascii (true, false, true, false, false, true, true, false)),
    (String ((Ascii (false, false, false, false, false, true, false, false)),
    (String ((Ascii (true, true, true, false, false, false, true, false)),
    (String ((Ascii (true, true, false, false, false, false, true, false)),
    (String ((Ascii (true, false, true, true, false, false, true, false)),
    (String ((Ascii (false, false, false, false, false, true, false, false)),
    (String ((Ascii (true, true, false, false, false, true, true, false)),
    (String ((Ascii (true, false, false, true, false, true, true, false)),
    (String ((Ascii (false, false, false, false, true, true, true, false)),
    (String ((Ascii (false, false, false, true, false, true, true, false)),
    (String ((Ascii (true, false, true, false, false, true, true, false)),
    (String ((Ascii (false, true, false, false, true, true, true, false)),
    EmptyString))))))))))))))))))))))))))))))))))))))))))))))))))))))))))))))));
    r_cond = (Neg (pairedWithCipher iMB_CIPHER_GCM)); r_err =
    iMB_ERR_CIPH_MODE } :: ({ r_name = (String ((Ascii (true, true, true,
    false, false, false, true, false)), (String ((Ascii (true, false, true,
    true, false, false, true, false)), (String ((Ascii (true, false, false,
    false, false, false, true, false)), (String ((Ascii (true, true, false,
    false, false, false, true, false)), (String ((Ascii (false, false, false,
    false, false, true, false, false)), (String ((Ascii (true, true, false,
    true, false, true, true, false)), (String ((Ascii (true, false, true,
    false, false, true, true, false)), (String ((Ascii (true, false, false,
    true, true, true, true, false)), (String ((Ascii (false, false, false,
    false, false, true, false, false)), (String ((Ascii (true, false, false,
    false, false, true, false, false)), (String ((Ascii (true, false, true,
    true, true, true, false, false)), (String ((Ascii (false, false, false,
    false, false, true, false, false)), (String ((Ascii (false, true, true,
    true, false, false, true, false)), (String ((Ascii (true, false, true,
    false, true, false, true, false)), (String ((Ascii (false, false, true,
    true, false, false, true, false)), (String ((Ascii (false, false, true,
    true, false, false, true, false)),
    EmptyString)))))))))))))))))))))))))))))))); r_cond = (NonNull (fun j ->
    j.jv_u0)); r_err = iMB_ERR_JOB_NULL_AUTH_KEY } :: ({ r_name = (String
    ((Ascii (true, true, true, false, false, false, true, false)), (String
    ((Ascii (true, false, true, true, false, false, true, false)), (String
    ((Ascii (true, false, false, false, false, false, true, false)), (String
    ((Ascii (true, true, false, false, false, false, true, false)), (String
    ((Ascii (false, false, false, false, false, true, false, false)), (String
    ((Ascii (true, false, false, true, false, false, true, false)), (String
    ((Ascii (false, true, true, false, true, false, true, false)), (String
    ((Ascii (false, false, false, false, false, true, false, false)), (String
    ((Ascii (true, false, false, false, false, true, false, false)), (String
    ((Ascii (true, false, true, true, true, true, false, false)), (String
    ((Ascii (false, false, false, false, false, true, false, false)), (String
    ((Ascii (false, true, true, true, false, false, true, false)), (String
    ((Ascii (true, false, true, false, true, false, true, false)), (String
    ((Ascii (false, false, true, true, false, false, true, false)), (String
    ((Ascii (false, false, true, true, false, false, true, false)),
    EmptyString)))))))))))))))))))))))))))))); r_cond = (NonNull (fun j ->
    j.jv_u1)); r_err = iMB_ERR_JOB_NULL_IV } :: ({ r_name = (String ((Ascii
    (true, true, true, false, false, false, true, false)), (String ((Ascii
    (true, false, true, true, false, false, true, false)), (String ((Ascii
    (true, false, false, false, false, false, true, false)), (String ((Ascii
    (true, true, false, false, false, false, true, false)), (String ((Ascii
    (false, false, false, false, false, true, false, false)), (String ((Ascii
    (true, false, false, true, false, false, true, false)), (String ((Ascii
    (false, true, true, false, true, false, true, false)), (String ((Ascii
    (false, false, false, false, false, true, false, false)), (String ((Ascii
    (false, false, true, true, false, true, true, false)), (String ((Ascii
    (true, false, true, false, false, true, true, false)), (String ((Ascii
    (false, true, true, true, false, true, true, false)), (String ((Ascii
    (true, true, true, false, false, true, true, false)), (String ((Ascii
    (false, false, true, false, true, true, true, false)), (String ((Ascii
    (false, false, false, true, false, true, true, false)), (String ((Ascii
    (false, false, false, false, false, true, false, false)), (String ((Ascii
    (false, true, true, true, false, true, true, false)), (String ((Ascii
    (true, true, true, true, false, true, true, false)), (String ((Ascii
    (false, true, true, true, false, true, true, false)), (String ((Ascii
    (true, false, true, true, false, true, false, false)), (String ((Ascii
    (false, true, false, true, true, true, true, false)), (String ((Ascii
    (true, false, true, false, false, true, true, false)), (String ((Ascii
    (false, true, false, false, true, true, true, false)), (String ((Ascii
    (true, true, true, true, false, true, true, false)),
    EmptyString)))))))))))))))))))))))))))))))))))))))))))))); r_cond =
    (ValAtLeast ((fun j -> j.jv_u2), (Npos XH))); r_err =
    iMB_ERR_JOB_IV_LEN } :: (r_hash_src_if_len :: []))))))

(** val rules_GHASH : rule list **)

let rules_GHASH =
  (r_tag_len_between (Npos XH) (Npos (XO (XO (XO (XO XH)))))) :: (r_tag :: ({ r_name =
    (String ((Ascii (true, true, true, false, false, false, true, false)),
    (String ((Ascii (false, false, false, true, false, false, true, false)),
    (String ((Ascii (true, false, false, false, false, false, true, false)),
    (String ((Ascii (true, true, false, false, true, false, true, false)),
    (String ((Ascii (false, false, false, true, false, false, true, false)),
    (String ((Ascii (false, false, false, false, false, true, false, false)),
    (String ((Ascii (true, true, false, true, false, true, true, false)),
    (String ((Ascii (true, false, true, false, false, true, true, false)),
    (String ((Ascii (true, false, false, true, true, true, true, false)),
    (String ((Ascii (false, false, false, false, false, true, false, false)),
    (String ((Ascii (true, false, false, false, false, true, false, false)),
    (String ((Ascii (true, false, true, true, true, true, false, false)),
    (String ((Ascii (false, false, false, false, false, true, false, false)),
    (String ((Ascii (false, true, true, true, false, false, true, false)),
    (String ((Ascii (true, false, true, false, true, false, true, false)),
    (String ((Ascii (false, false, true, true, false, false, true, false)),
    (String ((Ascii (false, false, true, true, false, false, true, false)),
    EmptyString)))))))))))))))))))))))))))))))))); r_cond = (NonNull
    (fun j -> j.jv_u0)); r_err = iMB_ERR_JOB_NULL_AUTH_KEY } :: ({ r_name =
    (String ((Ascii (true, false, false, true, false, true, true, false)),
    (String ((Ascii (false, true, true, true, false, true, true, false)),
    (String ((Ascii (true, false, false, true, false, true, true, false)),
    (String ((Ascii (false, false, true, false, true, true, true, false)),
    (String ((Ascii (true, false, false, true, false, true, true, false)),
    (String ((Ascii (true, false, false, false, false, true, true, false)),
    (String ((Ascii (false, false, true, true, false, true, true, false)),
    (String ((Ascii (false, false, false, false, false, true, false, false)),
    (String ((Ascii (false, false, true, false, true, true, true, false)),
    (String ((Ascii (true, false, false, false, false, true, true, false)),
    (String ((Ascii (true, true, true, false, false, true, true, false)),
    (String ((Ascii (false, false, false, false, false, true, false, false)),
    (String ((Ascii (true, false, false, false, false, true, false, false)),
    (String ((Ascii (true, false, true, true, true, true, false, false)),
    (String ((Ascii (false, false, false, false, false, true, false, false)),
    (String ((Ascii (false, true, true, true, false, false, true, false)),
    (String ((Ascii (true, false, true, false, true, false, true, false)),
    (String ((Ascii (false, false, true, true, false, false, true, false)),
    (String ((Ascii (false, false, true, true, false, false, true, false)),
    EmptyString)))))))))))))))))))))))))))))))))))))); r_cond = (NonNull
    (fun j -> j.jv_u1)); r_err =
    iMB_ERR_JOB_NULL_GHASH_INIT_TAG } :: (r_hash_src_if_len :: []))))

(** val rules_AUTH_CUSTOM : rule list **)

let rules_AUTH_CUSTOM =
  { r_name = (String ((Ascii (false, false, false, true, false, true, true,
    false)), (String ((Ascii (true, false, false, false, false, true, true,
    false)), (String ((Ascii (true, true, false, false, true, true, true,
    false)), (String ((Ascii (false, false, false, true, false, true, true,
    false)), (String ((Ascii (true, true, true, true, true, false, true,
    false)), (String ((Ascii (false, true, true, false, false, true, true,
    false)), (String ((Ascii (true, false, true, false, true, true, true,
    false)), (String ((Ascii (false, true, true, true, false, true, true,
    false)), (String ((Ascii (true, true, false, false, false, true, true,
    false)), (String ((Ascii (false, false, false, false, false, true, false,
    false)), (String ((Ascii (true, false, false, false, false, true, false,
    false)), (String ((Ascii (true, false, true, true, true, true, false,
    false)), (String ((Ascii (false, false, false, false, false, true, false,
    false)), (String ((Ascii (false, true, true, true, false, false, true,
    false)), (String ((Ascii (true, false, true, false, true, false, true,
    false)), (String ((Ascii (false, false, true, true, false, false, true,
    false)), (String ((Ascii (false, false, true, true, false, false, true,
    false)), EmptyString)))))))))))))))))))))))))))))))))); r_cond = (NonNull
    (fun j -> j.jv_hash_func)); r_err = errno_EFAULT } :: []

(** val rules_AES_CCM : rule list **)

let rules_AES_CCM =
  r_hash_src_if_len :: ({ r_name = (String ((Ascii (true, false, false,
    false, false, false, true, false)), (String ((Ascii (true, false, false,
    false, false, false, true, false)), (String ((Ascii (false, false, true,
    false, false, false, true, false)), (String ((Ascii (false, false, false,
    false, false, true, false, false)), (String ((Ascii (true, false, false,
    false, false, true, true, false)), (String ((Ascii (false, false, true,
    false, true, true, true, false)), (String ((Ascii (false, false, false,
    false, false, true, false, false)), (String ((Ascii (true, false, true,
    true, false, true, true, false)), (String ((Ascii (true, true, true,
    true, false, true, true, false)), (String ((Ascii (true, true, false,
    false, true, true, true, false)), (String ((Ascii (false, false, true,
    false, true, true, true, false)), (String ((Ascii (false, false, false,
    false, false, true, false, false)), (String ((Ascii (false, false, true,
    false, true, true, false, false)), (String ((Ascii (false, true, true,
    false, true, true, false, false)), (String ((Ascii (false, false, false,
    false, false, true, false, false)), (String ((Ascii (false, true, false,
    false, false, true, true, false)), (String ((Ascii (true, false, false,
    true, true, true, true, false)), (String ((Ascii (false, false, true,
    false, true, true, true, false)), (String ((Ascii (true, false, true,
    false, false, true, true, false)), (String ((Ascii (true, true, false,
    false, true, true, true, false)),
    EmptyString)))))))))))))))))))))))))))))))))))))))); r_cond = (ValBetween
    ((fun j -> j.jv_u1), N0, iMB_CCM_AAD_MAX_SIZE)); r_err =
    iMB_ERR_JOB_AAD_LEN } :: (r_aad :: ({ r_name = (String ((Ascii (false,
    false, true, false, true, true, true, false)), (String ((Ascii (true,
    false, false, false, false, true, true, false)), (String ((Ascii (true,
    true, true, false, false, true, true, false)), (String ((Ascii (false,
    false, false, false, false, true, false, false)), (String ((Ascii (false,
    false, true, true, false, true, true, false)), (String ((Ascii (true,
    false, true, false, false, true, true, false)), (String ((Ascii (false,
    true, true, true, false, true, true, false)), (String ((Ascii (true,
    true, true, false, false, true, true, false)), (String ((Ascii (false,
    false, true, false, true, true, true, false)), (String ((Ascii (false,
    false, false, true, false, true, true, false)), (String ((Ascii (false,
    false, false, false, false, true, false, false)), (String ((Ascii (true,
    false, true, false, false, true, true, false)), (String ((Ascii (false,
    true, true, false, true, true, true, false)), (String ((Ascii (true,
    false, true, false, false, true, true, false)), (String ((Ascii (false,
    true, true, true, false, true, true, false)), (String ((Ascii (false,
    false, true, true, false, true, false, false)), (String ((Ascii (false,
    false, false, false, false, true, false, false)), (String ((Ascii (false,
    false, true, false, true, true, false, false)), (String ((Ascii (false,
    true, true, true, false, true, false, false)), (String ((Ascii (false,
    true, true, true, false, true, false, false)), (String ((Ascii (true,
    false, false, false, true, true, false, false)), (String ((Ascii (false,
    true, true, false, true, true, false, false)),
    EmptyString)))))))))))))))))))))))))))))))))))))))))))); r_cond =
    (tagLenIn ((Npos (XO (XO XH))) :: ((Npos (XO (XI XH))) :: ((Npos (XO (XO
      (XO XH)))) :: ((Npos (XO (XI (XO XH)))) :: ((Npos (XO (XO (XI
      XH)))) :: ((Npos (XO (XI (XI XH)))) :: ((Npos (XO (XO (XO (XO
      XH))))) :: [])))))))); r_err =
    iMB_ERR_JOB_AUTH_TAG_LEN } :: ((r_pair_cipher iMB_CIPHER_CCM) :: (
    (r_hash_len N0 mB_MAX_LEN16) :: ({ r_name = (String ((Ascii (true, true,
    true, true, false, true, true, false)), (String ((Ascii (false, true,
    true, true, false, true, true, false)), (String ((Ascii (true, false,
    true, false, false, true, true, false)), (String ((Ascii (false, false,
    false, false, false, true, false, false)), (String ((Ascii (true, false,
    true, true, false, true, true, false)), (String ((Ascii (true, false,
    true, false, false, true, true, false)), (String ((Ascii (true, true,
    false, false, true, true, true, false)), (String ((Ascii (true, true,
    false, false, true, true, true, false)), (String ((Ascii (true, false,
    false, false, false, true, true, false)), (String ((Ascii (true, true,
    true, false, false, true, true, false)), (String ((Ascii (true, false,
    true, false, false, true, true, false)), (String ((Ascii (false, true,
    false, true, true, true, false, false)), (String ((Ascii (false, false,
    false, false, false, true, false, false)), (String ((Ascii (true, true,
    false, false, false, true, true, false)), (String ((Ascii (true, false,
    false, true, false, true, true, false)), (String ((Ascii (false, false,
    false, false, true, true, true, false)), (String ((Ascii (false, false,
    false, true, false, true, true, false)), (String ((Ascii (true, false,
    true, false, false, true, true, false)), (String ((Ascii (false, true,
    false, false, true, true, true, false)), (String ((Ascii (false, false,
    false, false, false, true, false, false)), (String ((Ascii (false, false,
    true, true, false, true, true, false)), (String ((Ascii (true, false,
    true, false, false, true, true, false)), (String ((Ascii (false, true,
    true, true, false, true, true, false)), (String ((Ascii (true, true,
    true, false, false, true, true, false)), (String ((Ascii (false, false,
    true, false, true, true, true, false)), (String ((Ascii (false, false,
    false, true, false, true, true, false)), (String ((Ascii (false, false,
    false, false, false, true, false, false)), (String ((Ascii (true, false,
    true, true, true, true, false, false)), (String ((Ascii (false, false,
    false, false, false, true, false, false)), (String ((Ascii (false, false,
    false, true, false, true, true, false)), (String ((Ascii (true, false,
    false, false, false, true, true, false)), (String ((Ascii (true, true,
    false, false, true, true, true, false)), (String ((Ascii (false, false,
    false, true, false, true, true, false)), (String ((Ascii (false, false,
    false, false, false, true, false, false)), (String ((Ascii (false, false,
    true, true, false, true, true, false)), (String ((Ascii (true, false,
    true, false, false, true, true, false)), (String ((Ascii (false, true,
    true, true, false, true, true, false)), (String ((Ascii (true, true,
    true, false, false, true, true, false)), (String ((Ascii (false, false,
    true, false, true, true, true, false)), (String ((Ascii (false, false,
    false, true, false, true, true, false)),
    EmptyString))))))))))))))))))))))))))))))))))))))))))))))))))))))))))))))))))))))))))))))));
    r_cond = (SameAs ((fun j -> j.jv_msg_len_to_cipher), (fun j ->
    j.jv_msg_len_to_hash))); r_err = iMB_ERR_JOB_CIPH_LEN } :: ({ r_name =
    (String ((Ascii (true, true, true, true, false, true, true, false)),
    (String ((Ascii (false, true, true, true, false, true, true, false)),
    (String ((Ascii (true, false, true, false, false, true, true, false)),
    (String ((Ascii (false, false, false, false, false, true, false, false)),
    (String ((Ascii (true, false, true, true, false, true, true, false)),
    (String ((Ascii (true, false, true, false, false, true, true, false)),
    (String ((Ascii (true, true, false, false, true, true, true, false)),
    (String ((Ascii (true, true, false, false, true, true, true, false)),
    (String ((Ascii (true, false, false, false, false, true, true, false)),
    (String ((Ascii (true, true, true, false, false, true, true, false)),
    (String ((Ascii (true, false, true, false, false, true, true, false)),
    (String ((Ascii (false, true, false, true, true, true, false, false)),
    (String ((Ascii (false, false, false, false, false, true, false, false)),
    (String ((Ascii (true, true, false, false, false, true, true, false)),
    (String ((Ascii (true, false, false, true, false, true, true, false)),
    (String ((Ascii (false, false, false, false, true, true, true, false)),
    (String ((Ascii (false, false, false, true, false, true, true, false)),
    (String ((Ascii (true, false, true, false, false, true, true, false)),
    (String ((Ascii (false, true, false, false, true, true, true, false)),
    (String ((Ascii (false, false, false, false, false, true, false, false)),
    (String ((Ascii (true, true, true, true, false, true, true, false)),
    (String ((Ascii (false, true, true, false, false, true, true, false)),
    (String ((Ascii (false, true, true, false, false, true, true, false)),
    (String ((Ascii (true, true, false, false, true, true, true, false)),
    (String ((Ascii (true, false, true, false, false, true, true, false)),
    (String ((Ascii (false, false, true, false, true, true, true, false)),
    (String ((Ascii (false, false, false, false, false, true, false, false)),
    (String ((Ascii (true, false, true, true, true, true, false, false)),
    (String ((Ascii (false, false, false, false, false, true, false, false)),
    (String ((Ascii (false, false, false, true, false, true, true, false)),
    (String ((Ascii (true, false, false, false, false, true, true, false)),
    (String ((Ascii (true, true, false, false, true, true, true, false)),
    (String ((Ascii (false, false, false, true, false, true, true, false)),
    (String ((Ascii (false, false, false, false, false, true, false, false)),
    (String ((Ascii (true, true, true, true, false, true, true, false)),
    (String ((Ascii (false, true, true, false, false, true, true, false)),
    (String ((Ascii (false, true, true, false, false, true, true, false)),
    (String ((Ascii (true, true, false, false, true, true, true, false)),
    (String ((Ascii (true, false, true, false, false, true, true, false)),
    (String ((Ascii (false, false, true, false, true, true, true, false)),
    EmptyString))))))))))))))))))))))))))))))))))))))))))))))))))))))))))))))))))))))))))))))));
    r_cond = (SameAs ((fun j -> j.jv_cipher_start_src_offset), (fun j ->
    j.jv_hash_start_src_offset))); r_err =
    iMB_ERR_JOB_SRC_OFFSET } :: (r_tag :: []))))))))

(** val r_cmac_keys : rule **)

let r_cmac_keys =
  { r_name = (String ((Ascii (true, false, true, false, false, true, true,
    false)), (String ((Ascii (false, false, false, true, true, true, true,
    false)), (String ((Ascii (false, false, false, false, true, true, true,
    false)), (String ((Ascii (true, false, false, false, false, true, true,
    false)), (String ((Ascii (false, true, true, true, false, true, true,
    false)), (String ((Ascii (false, false, true, false, false, true, true,
    false)), (String ((Ascii (true, false, true, false, false, true, true,
    false)), (String ((Ascii (false, false, true, false, false, true, true,
    false)), (String ((Ascii (false, false, false, false, false, true, false,
    false)), (String ((Ascii (true, true, false, true, false, true, true,
    false)), (String ((Ascii (true, false, true, false, false, true, true,
    false)), (String ((Ascii (true, false, false, true, true, true, true,
    false)), (String ((Ascii (false, false, false, false, false, true, false,
    false)), (String ((Ascii (true, false, false, false, false, true, true,
    false)), (String ((Ascii (false, true, true, true, false, true, true,
    false)), (String ((Ascii (false, false, true, false, false, true, true,
    false)), (String ((Ascii (false, false, false, false, false, true, false,
    false)), (String ((Ascii (false, true, false, false, false, true, true,
    false)), (String ((Ascii (true, true, true, true, false, true, true,
    false)), (String ((Ascii (false, false, true, false, true, true, true,
    false)), (String ((Ascii (false, false, false, true, false, true, true,
    false)), (String ((Ascii (false, false, false, false, false, true, false,
    false)), (String ((Ascii (true, true, false, false, true, true, true,
    false)), (String ((Ascii (true, false, true, false, true, true, true,
    false)), (String ((Ascii (false, true, false, false, false, true, true,
    false)), (String ((Ascii (true, true, false, true, false, true, true,
    false)), (String ((Ascii (true, false, true, false, false, true, true,
    false)), (String ((Ascii (true, false, false, true, true, true, true,
    false)), (String ((Ascii (true, true, false, false, true, true, true,
    false)), (String ((Ascii (false, false, false, false, false, true, false,
    false)), (String ((Ascii (true, false, false, false, false, true, false,
    false)), (String ((Ascii (true, false, true, true, true, true, false,
    false)), (String ((Ascii (false, false, false, false, false, true, false,
    false)), (String ((Ascii (false, true, true, true, false, false, true,
    false)), (String ((Ascii (true, false, true, false, true, false, true,
    false)), (String ((Ascii (false, false, true, true, false, false, true,
    false)), (String ((Ascii (false, false, true, true, false, false, true,
    false)),
    EmptyString))))))))))))))))))))))))))))))))))))))))))))))))))))))))))))))))))))))))));
    r_cond = (Both ((NonNull (fun j -> j.jv_u0)), (Both ((NonNull (fun j ->
    j.jv_u1)), (NonNull (fun j -> j.jv_u2)))))); r_err =
    iMB_ERR_JOB_NULL_KEY }

(** val rules_CMAC : rule list **)

let rules_CMAC =
  r_hash_src :: (r_cmac_keys :: ((r_tag_len_between (Npos XH) (Npos (XO (XO
                                   (XO (XO XH)))))) :: (r_tag :: ((r_hash_len
                                                                    N0
                                                                    mB_MAX_LEN16) :: []))))

(** val rules_CMAC_BITLEN : rule list **)

let rules_CMAC_BITLEN =
  r_hash_src :: (r_cmac_keys :: ((r_tag_len_between (Npos XH) (Npos (XO (XO
                                   (XO (XO XH)))))) :: (r_tag :: ((r_hash_len
                                                                    N0 (Npos
                                                                    (XO (XO
                                                                    (XO (XO
                                                                    (XI (XI
                                                                    (XI (XI
                                                                    (XI (XI
                                                                    (XI (XI
                                                                    (XI (XI
                                                                    (XI (XI
                                                                    (XI (XI
                                                                    XH)))))))))))))))))))) :: []))))

(** val rules_SHA : n -> rule list **)

let rules_SHA full =
  (r_tag_len (full :: [])) :: (r_hash_src :: (r_tag :: ((r_hash_len N0
                                                          mB_MAX_LEN16) :: [])))

(** val rules_PON_CRC_BIP : rule list **)

let rules_PON_CRC_BIP =
  { r_name = (String ((Ascii (false, false, false, true, false, true, true,
    false)), (String ((Ascii (true, false, false, false, false, true, true,
    false)), (String ((Ascii (true, true, false, false, true, true, true,
    false)), (String ((Ascii (false, false, false, true, false, true, true,
    false)), (String ((Ascii (false, false, false, false, false, true, false,
    false)), (String ((Ascii (false, false, true, true, false, true, true,
    false)), (String ((Ascii (true, false, true, false, false, true, true,
    false)), (String ((Ascii (false, true, true, true, false, true, true,
    false)), (String ((Ascii (true, true, true, false, false, true, true,
    false)), (String ((Ascii (false, false, true, false, true, true, true,
    false)), (String ((Ascii (false, false, false, true, false, true, true,
    false)), (String ((Ascii (false, false, false, false, false, true, false,
    false)), (String ((Ascii (true, false, true, true, false, true, true,
    false)), (String ((Ascii (true, false, true, false, true, true, true,
    false)), (String ((Ascii (false, false, true, true, false, true, true,
    false)), (String ((Ascii (false, false, true, false, true, true, true,
    false)), (String ((Ascii (true, false, false, true, false, true, true,
    false)), (String ((Ascii (false, false, false, false, true, true, true,
    false)), (String ((Ascii (false, false, true, true, false, true, true,
    false)), (String ((Ascii (true, false, true, false, false, true, true,
    false)), (String ((Ascii (false, false, false, false, false, true, false,
    false)), (String ((Ascii (true, true, true, true, false, true, true,
    false)), (String ((Ascii (false, true, true, false, false, true, true,
    false)), (String ((Ascii (false, false, false, false, false, true, false,
    false)), (String ((Ascii (false, false, true, false, true, true, false,
    false)), EmptyString))))))))))))))))))))))))))))))))))))))))))))))))));
    r_cond = (MultipleOf ((fun j -> j.jv_msg_len_to_hash), (Npos (XO (XO
    XH))))); r_err =
    iMB_ERR_JOB_AUTH_LEN } :: ((r_hash_len (Npos (XO (XO (XO XH)))) (Npos (XO
                                 (XO (XO (XI (XO (XO (XO (XO (XO (XO (XO (XO
                                 (XO (XO XH)))))))))))))))) :: ((r_tag_len
                                                                  ((Npos (XO
                                                                  (XO (XO
                                                                  XH)))) :: [])) :: (
    (r_pair_cipher iMB_CIPHER_PON_AES_CNTR) :: (r_tag :: []))))

(** val rules_ZUC_EIA3 : rule list **)

let rules_ZUC_EIA3 =
  r_hash_src :: ((r_hash_len (Npos XH) (Npos (XO (XO (XO (XO (XO (XI (XI (XI
                   (XI (XI (XI (XI (XI (XI (XI XH))))))))))))))))) :: ({ r_name =
    (String ((Ascii (false, true, false, true, true, false, true, false)),
    (String ((Ascii (true, false, true, false, true, false, true, false)),
    (String ((Ascii (true, true, false, false, false, false, true, false)),
    (String ((Ascii (false, false, false, false, false, true, false, false)),
    (String ((Ascii (true, true, false, true, false, true, true, false)),
    (String ((Ascii (true, false, true, false, false, true, true, false)),
    (String ((Ascii (true, false, false, true, true, true, true, false)),
    (String ((Ascii (false, false, false, false, false, true, false, false)),
    (String ((Ascii (true, false, false, false, false, true, false, false)),
    (String ((Ascii (true, false, true, true, true, true, false, false)),
    (String ((Ascii (false, false, false, false, false, true, false, false)),
    (String ((Ascii (false, true, true, true, false, false, true, false)),
    (String ((Ascii (true, false, true, false, true, false, true, false)),
    (String ((Ascii (false, false, true, true, false, false, true, false)),
    (String ((Ascii (false, false, true, true, false, false, true, false)),
    EmptyString)))))))))))))))))))))))))))))); r_cond = (NonNull (fun j ->
    j.jv_u0)); r_err = iMB_ERR_JOB_NULL_KEY } :: ({ r_name = (String ((Ascii
    (false, true, false, true, true, false, true, false)), (String ((Ascii
    (true, false, true, false, true, false, true, false)), (String ((Ascii
    (true, true, false, false, false, false, true, false)), (String ((Ascii
    (false, false, false, false, false, true, false, false)), (String ((Ascii
    (true, false, false, true, false, false, true, false)), (String ((Ascii
    (false, true, true, false, true, false, true, false)), (String ((Ascii
    (false, false, false, false, false, true, false, false)), (String ((Ascii
    (true, false, false, false, false, true, false, false)), (String ((Ascii
    (true, false, true, true, true, true, false, false)), (String ((Ascii
    (false, false, false, false, false, true, false, false)), (String ((Ascii
    (false, true, true, true, false, false, true, false)), (String ((Ascii
    (true, false, true, false, true, false, true, false)), (String ((Ascii
    (false, false, true, true, false, false, true, false)), (String ((Ascii
    (false, false, true, true, false, false, true, false)),
    EmptyString)))))))))))))))))))))))))))); r_cond = (NonNull (fun j ->
    j.jv_u1)); r_err =
    iMB_ERR_JOB_NULL_IV } :: ((r_tag_len ((Npos (XO (XO XH))) :: [])) :: (r_tag :: [])))))

(** val rules_ZUC256_EIA3 : rule list **)

let rules_ZUC256_EIA3 =
  r_hash_src :: ((r_hash_len (Npos XH) (Npos (XO (XO (XO (XO (XO (XI (XI (XI
                   (XI (XI (XI (XI (XI (XI (XI XH))))))))))))))))) :: ({ r_name =
    (String ((Ascii (false, true, false, true, true, false, true, false)),
    (String ((Ascii (true, false, true, false, true, false, true, false)),
    (String ((Ascii (true, true, false, false, false, false, true, false)),
    (String ((Ascii (false, false, false, false, false, true, false, false)),
    (String ((Ascii (true, true, false, true, false, true, true, false)),
    (String ((Ascii (true, false, true, false, false, true, true, false)),
    (String ((Ascii (true, false, false, true, true, true, true, false)),
    (String ((Ascii (false, false, false, false, false, true, false, false)),
    (String ((Ascii (true, false, false, false, false, true, false, false)),
    (String ((Ascii (true, false, true, true, true, true, false, false)),
    (String ((Ascii (false, false, false, false, false, true, false, false)),
    (String ((Ascii (false, true, true, true, false, false, true, false)),
    (String ((Ascii (true, false, true, false, true, false, true, false)),
    (String ((Ascii (false, false, true, true, false, false, true, false)),
    (String ((Ascii (false, false, true, true, false, false, true, false)),
    EmptyString)))))))))))))))))))))))))))))); r_cond = (NonNull (fun j ->
    j.jv_u0)); r_err = iMB_ERR_JOB_NULL_KEY } :: ({ r_name = (String ((Ascii
    (false, true, false, false, true, true, false, false)), (String ((Ascii
    (true, false, true, false, true, true, false, false)), (String ((Ascii
    (true, false, true, true, false, true, false, false)), (String ((Ascii
    (false, true, false, false, false, true, true, false)), (String ((Ascii
    (true, false, false, true, true, true, true, false)), (String ((Ascii
    (false, false, true, false, true, true, true, false)), (String ((Ascii
    (true, false, true, false, false, true, true, false)), (String ((Ascii
    (false, false, false, false, false, true, false, false)), (String ((Ascii
    (true, false, false, true, false, false, true, false)), (String ((Ascii
    (false, true, true, false, true, false, true, false)), (String ((Ascii
    (false, false, false, false, false, true, false, false)), (String ((Ascii
    (true, true, true, true, false, true, true, false)), (String ((Ascii
    (false, true, false, false, true, true, true, false)), (String ((Ascii
    (false, false, false, false, false, true, false, false)), (String ((Ascii
    (false, true, false, false, true, true, false, false)), (String ((Ascii
    (true, true, false, false, true, true, false, false)), (String ((Ascii
    (true, false, true, true, false, true, false, false)), (String ((Ascii
    (false, true, false, false, false, true, true, false)), (String ((Ascii
    (true, false, false, true, true, true, true, false)), (String ((Ascii
    (false, false, true, false, true, true, true, false)), (String ((Ascii
    (true, false, true, false, false, true, true, false)), (String ((Ascii
    (false, false, false, false, false, true, false, false)), (String ((Ascii
    (true, false, false, true, false, false, true, false)), (String ((Ascii
    (false, true, true, false, true, false, true, false)), (String ((Ascii
    (false, false, false, false, false, true, false, false)), (String ((Ascii
    (true, false, false, false, false, true, false, false)), (String ((Ascii
    (true, false, true, true, true, true, false, false)), (String ((Ascii
    (false, false, false, false, false, true, false, false)), (String ((Ascii
    (false, true, true, true, false, false, true, false)), (String ((Ascii
    (true, false, true, false, true, false, true, false)), (String ((Ascii
    (false, false, true, true, false, false, true, false)), (String ((Ascii
    (false, false, true, true, false, false, true, false)),
    EmptyString))))))))))))))))))))))))))))))))))))))))))))))))))))))))))))))));
    r_cond = (Either ((NonNull (fun j -> j.jv_u1)), (NonNull (fun j ->
    j.jv_u2)))); r_err =
    iMB_ERR_JOB_NULL_IV } :: ((r_tag_len ((Npos (XO (XO XH))) :: ((Npos (XO
                                (XO (XO XH)))) :: ((Npos (XO (XO (XO (XO
                                XH))))) :: [])))) :: (r_tag :: [])))))

(** val rules_DOCSIS_CRC32 : rule list **)

let rules_DOCSIS_CRC32 =
  (r_pair_cipher iMB_CIPHER_DOCSIS_SEC_BPI) :: ({ r_name = (String ((Ascii
    (true, true, false, false, false, true, true, false)), (String ((Ascii
    (true, false, false, true, false, true, true, false)), (String ((Ascii
    (false, false, false, false, true, true, true, false)), (String ((Ascii
    (false, false, false, true, false, true, true, false)), (String ((Ascii
    (true, false, true, false, false, true, true, false)), (String ((Ascii
    (false, true, false, false, true, true, true, false)), (String ((Ascii
    (true, false, true, false, false, true, true, false)), (String ((Ascii
    (false, false, true, false, false, true, true, false)), (String ((Ascii
    (false, false, false, false, false, true, false, false)), (String ((Ascii
    (false, true, false, false, true, true, true, false)), (String ((Ascii
    (true, false, true, false, false, true, true, false)), (String ((Ascii
    (true, true, true, false, false, true, true, false)), (String ((Ascii
    (true, false, false, true, false, true, true, false)), (String ((Ascii
    (true, true, true, true, false, true, true, false)), (String ((Ascii
    (false, true, true, true, false, true, true, false)), (String ((Ascii
    (false, false, false, false, false, true, false, false)), (String ((Ascii
    (true, false, false, true, false, true, true, false)), (String ((Ascii
    (false, true, true, true, false, true, true, false)), (String ((Ascii
    (true, true, false, false, true, true, true, false)), (String ((Ascii
    (true, false, false, true, false, true, true, false)), (String ((Ascii
    (false, false, true, false, false, true, true, false)), (String ((Ascii
    (true, false, true, false, false, true, true, false)), (String ((Ascii
    (false, false, false, false, false, true, false, false)), (String ((Ascii
    (false, false, true, false, true, true, true, false)), (String ((Ascii
    (false, false, false, true, false, true, true, false)), (String ((Ascii
    (true, false, true, false, false, true, true, false)), (String ((Ascii
    (false, false, false, false, false, true, false, false)), (String ((Ascii
    (true, true, false, false, false, false, true, false)), (String ((Ascii
    (false, true, false, false, true, false, true, false)), (String ((Ascii
    (true, true, false, false, false, false, true, false)), (String ((Ascii
    (true, true, true, false, false, true, false, false)), (String ((Ascii
    (false, false, true, false, false, true, true, false)), (String ((Ascii
    (false, false, false, false, false, true, false, false)), (String ((Ascii
    (false, true, true, false, false, true, true, false)), (String ((Ascii
    (false, true, false, false, true, true, true, false)), (String ((Ascii
    (true, false, false, false, false, true, true, false)), (String ((Ascii
    (true, false, true, true, false, true, true, false)), (String ((Ascii
    (true, false, true, false, false, true, true, false)),
    EmptyString))))))))))))))))))))))))))))))))))))))))))))))))))))))))))))))))))))))))))));
    r_cond = (When ((Both (cipherLenNonZero, hashLenNonZero)),
    DocsisLenFits)); r_err = iMB_ERR_JOB_CIPH_LEN } :: ({ r_name = (String
    ((Ascii (true, true, false, false, false, true, true, false)), (String
    ((Ascii (true, false, false, true, false, true, true, false)), (String
    ((Ascii (false, false, false, false, true, true, true, false)), (String
    ((Ascii (false, false, false, true, false, true, true, false)), (String
    ((Ascii (true, false, true, false, false, true, true, false)), (String
    ((Ascii (false, true, false, false, true, true, true, false)), (String
    ((Ascii (false, false, false, false, false, true, false, false)), (String
    ((Ascii (true, true, false, false, true, true, true, false)), (String
    ((Ascii (false, false, true, false, true, true, true, false)), (String
    ((Ascii (true, false, false, false, false, true, true, false)), (String
    ((Ascii (false, true, false, false, true, true, true, false)), (String
    ((Ascii (false, false, true, false, true, true, true, false)), (String
    ((Ascii (true, true, false, false, true, true, true, false)), (String
    ((Ascii (false, false, false, false, false, true, false, false)), (String
    ((Ascii (true, false, false, false, false, true, true, false)), (String
    ((Ascii (false, true, true, false, false, true, true, false)), (String
    ((Ascii (false, false, true, false, true, true, true, false)), (String
    ((Ascii (true, false, true, false, false, true, true, false)), (String
    ((Ascii (false, true, false, false, true, true, true, false)), (String
    ((Ascii (false, false, false, false, false, true, false, false)), (String
    ((Ascii (false, false, true, false, true, true, true, false)), (String
    ((Ascii (false, false, false, true, false, true, true, false)), (String
    ((Ascii (true, false, true, false, false, true, true, false)), (String
    ((Ascii (false, false, false, false, false, true, false, false)), (String
    ((Ascii (true, false, false, false, true, true, false, false)), (String
    ((Ascii (false, true, false, false, true, true, false, false)), (String
    ((Ascii (false, false, false, false, false, true, false, false)), (String
    ((Ascii (true, false, false, false, false, true, true, false)), (String
    ((Ascii (false, false, true, false, false, true, true, false)), (String
    ((Ascii (false, false, true, false, false, true, true, false)), (String
    ((Ascii (false, true, false, false, true, true, true, false)), (String
    ((Ascii (true, false, true, false, false, true, true, false)), (String
    ((Ascii (true, true, false, false, true, true, true, false)), (String
    ((Ascii (true, true, false, false, true, true, true, false)), (String
    ((Ascii (false, false, false, false, false, true, false, false)), (String
    ((Ascii (false, true, false, false, false, true, true, false)), (String
    ((Ascii (true, false, false, true, true, true, true, false)), (String
    ((Ascii (false, false, true, false, true, true, true, false)), (String
    ((Ascii (true, false, true, false, false, true, true, false)), (String
    ((Ascii (true, true, false, false, true, true, true, false)),
    EmptyString))))))))))))))))))))))))))))))))))))))))))))))))))))))))))))))))))))))))))))))));
    r_cond = (When ((Both (cipherLenNonZero, hashLenNonZero)),
    DocsisOffsetFits)); r_err =
    iMB_ERR_JOB_SRC_OFFSET } :: ((r_hash_len N0 mB_MAX_LEN16) :: (r_tag :: (
    (r_tag_len ((Npos (XO (XO XH))) :: [])) :: ({ r_name = (String ((Ascii
    (true, false, true, false, false, true, true, false)), (String ((Ascii
    (false, true, true, true, false, true, true, false)), (String ((Ascii
    (true, true, false, false, false, true, true, false)), (String ((Ascii
    (false, true, false, false, true, true, true, false)), (String ((Ascii
    (true, false, false, true, true, true, true, false)), (String ((Ascii
    (false, false, false, false, true, true, true, false)), (String ((Ascii
    (false, false, true, false, true, true, true, false)), (String ((Ascii
    (false, true, false, true, true, true, false, false)), (String ((Ascii
    (false, false, false, false, false, true, false, false)), (String ((Ascii
    (false, false, false, true, false, true, true, false)), (String ((Ascii
    (true, false, false, false, false, true, true, false)), (String ((Ascii
    (true, true, false, false, true, true, true, false)), (String ((Ascii
    (false, false, false, true, false, true, true, false)), (String ((Ascii
    (false, false, false, false, false, true, false, false)), (String ((Ascii
    (false, false, true, false, true, true, true, false)), (String ((Ascii
    (false, false, false, true, false, true, true, false)), (String ((Ascii
    (true, false, true, false, false, true, true, false)), (String ((Ascii
    (false, true, true, true, false, true, true, false)), (String ((Ascii
    (false, false, false, false, false, true, false, false)), (String ((Ascii
    (true, true, false, false, false, true, true, false)), (String ((Ascii
    (true, false, false, true, false, true, true, false)), (String ((Ascii
    (false, false, false, false, true, true, true, false)), (String ((Ascii
    (false, false, false, true, false, true, true, false)), (String ((Ascii
    (true, false, true, false, false, true, true, false)), (String ((Ascii
    (false, true, false, false, true, true, true, false)),
    EmptyString)))))))))))))))))))))))))))))))))))))))))))))))))); r_cond =
    (When (encrypting, (chainOrderIs iMB_ORDER_HASH_CIPHER))); r_err =
    iMB_ERR_JOB_CHAIN_ORDER } :: ({ r_name = (String ((Ascii (false, false,
    true, false, false, true, true, false)), (String ((Ascii (true, false,
    true, false, false, true, true, false)), (String ((Ascii (true, true,
    false, false, false, true, true, false)), (String ((Ascii (false, true,
    false, false, true, true, true, false)), (String ((Ascii (true, false,
    false, true, true, true, true, false)), (String ((Ascii (false, false,
    false, false, true, true, true, false)), (String ((Ascii (false, false,
    true, false, true, true, true, false)), (String ((Ascii (false, true,
    false, true, true, true, false, false)), (String ((Ascii (false, false,
    false, false, false, true, false, false)), (String ((Ascii (true, true,
    false, false, false, true, true, false)), (String ((Ascii (true, false,
    false, true, false, true, true, false)), (String ((Ascii (false, false,
    false, false, true, true, true, false)), (String ((Ascii (false, false,
    false, true, false, true, true, false)), (String ((Ascii (true, false,
    true, false, false, true, true, false)), (String ((Ascii (false, true,
    false, false, true, true, true, false)), (String ((Ascii (false, false,
    false, false, false, true, false, false)), (String ((Ascii (false, false,
    true, false, true, true, true, false)), (String ((Ascii (false, false,
    false, true, false, true, true, false)), (String ((Ascii (true, false,
    true, false, false, true, true, false)), (String ((Ascii (false, true,
    true, true, false, true, true, false)), (String ((Ascii (false, false,
    false, false, false, true, false, false)), (String ((Ascii (false, false,
    false, true, false, true, true, false)), (String ((Ascii (true, false,
    false, false, false, true, true, false)), (String ((Ascii (true, true,
    false, false, true, true, true, false)), (String ((Ascii (false, false,
    false, true, false, true, true, false)),
    EmptyString)))))))))))))))))))))))))))))))))))))))))))))))))); r_cond =
    (When (decrypting, (chainOrderIs iMB_ORDER_CIPHER_HASH))); r_err =
    iMB_ERR_JOB_CHAIN_ORDER } :: [])))))))

(** val rules_SNOW3G_UIA2 : rule list **)

let rules_SNOW3G_UIA2 =
  r_hash_src :: ((r_hash_len (Npos XH) (Npos (XI (XI (XI (XI (XI (XI (XI (XI
                   (XI (XI (XI (XI (XI (XI (XI (XI (XI (XI (XI (XI (XI (XI
                   (XI (XI (XI (XI (XI (XI (XI (XI (XI
                   XH))))))))))))))))))))))))))))))))) :: ({ r_name = (String
    ((Ascii (true, true, false, true, false, true, true, false)), (String
    ((Ascii (true, false, true, false, false, true, true, false)), (String
    ((Ascii (true, false, false, true, true, true, true, false)), (String
    ((Ascii (false, false, false, false, false, true, false, false)), (String
    ((Ascii (true, false, false, false, false, true, false, false)), (String
    ((Ascii (true, false, true, true, true, true, false, false)), (String
    ((Ascii (false, false, false, false, false, true, false, false)), (String
    ((Ascii (false, true, true, true, false, false, true, false)), (String
    ((Ascii (true, false, true, false, true, false, true, false)), (String
    ((Ascii (false, false, true, true, false, false, true, false)), (String
    ((Ascii (false, false, true, true, false, false, true, false)),
    EmptyString)))))))))))))))))))))); r_cond = (NonNull (fun j -> j.jv_u0));
    r_err = iMB_ERR_JOB_NULL_KEY } :: ({ r_name = (String ((Ascii (true,
    false, false, true, false, false, true, false)), (String ((Ascii (false,
    true, true, false, true, false, true, false)), (String ((Ascii (false,
    false, false, false, false, true, false, false)), (String ((Ascii (true,
    false, false, false, false, true, false, false)), (String ((Ascii (true,
    false, true, true, true, true, false, false)), (String ((Ascii (false,
    false, false, false, false, true, false, false)), (String ((Ascii (false,
    true, true, true, false, false, true, false)), (String ((Ascii (true,
    false, true, false, true, false, true, false)), (String ((Ascii (false,
    false, true, true, false, false, true, false)), (String ((Ascii (false,
    false, true, true, false, false, true, false)),
    EmptyString)))))))))))))))))))); r_cond = (NonNull (fun j -> j.jv_u1));
    r_err =
    iMB_ERR_JOB_NULL_IV } :: ((r_tag_len ((Npos (XO (XO XH))) :: [])) :: (r_tag :: [])))))

(** val rules_KASUMI_UIA1 : rule list **)

let rules_KASUMI_UIA1 =
  r_hash_src :: ((r_hash_len (Npos (XI (XO (XO XH)))) (Npos (XO (XO (XI (XO
                   (XO (XO (XI (XI (XI (XO (XO XH))))))))))))) :: ({ r_name =
    (String ((Ascii (true, true, false, true, false, true, true, false)),
    (String ((Ascii (true, false, true, false, false, true, true, false)),
    (String ((Ascii (true, false, false, true, true, true, true, false)),
    (String ((Ascii (false, false, false, false, false, true, false, false)),
    (String ((Ascii (true, false, false, false, false, true, false, false)),
    (String ((Ascii (true, false, true, true, true, true, false, false)),
    (String ((Ascii (false, false, false, false, false, true, false, false)),
    (String ((Ascii (false, true, true, true, false, false, true, false)),
    (String ((Ascii (true, false, true, false, true, false, true, false)),
    (String ((Ascii (false, false, true, true, false, false, true, false)),
    (String ((Ascii (false, false, true, true, false, false, true, false)),
    EmptyString)))))))))))))))))))))); r_cond = (NonNull (fun j -> j.jv_u0));
    r_err =
    iMB_ERR_JOB_NULL_KEY } :: ((r_tag_len ((Npos (XO (XO XH))) :: [])) :: (r_tag :: []))))

(** val rules_POLY1305 : rule list **)

let rules_POLY1305 =
  r_hash_src :: ({ r_name = (String ((Ascii (false, false, false, false,
    true, false, true, false)), (String ((Ascii (true, true, true, true,
    false, true, true, false)), (String ((Ascii (false, false, true, true,
    false, true, true, false)), (String ((Ascii (true, false, false, true,
    true, true, true, false)), (String ((Ascii (true, false, false, false,
    true, true, false, false)), (String ((Ascii (true, true, false, false,
    true, true, false, false)), (String ((Ascii (false, false, false, false,
    true, true, false, false)), (String ((Ascii (true, false, true, false,
    true, true, false, false)), (String ((Ascii (false, false, false, false,
    false, true, false, false)), (String ((Ascii (true, true, false, true,
    false, true, true, false)), (String ((Ascii (true, false, true, false,
    false, true, true, false)), (String ((Ascii (true, false, false, true,
    true, true, true, false)), (String ((Ascii (false, false, false, false,
    false, true, false, false)), (String ((Ascii (true, false, false, false,
    false, true, false, false)), (String ((Ascii (true, false, true, true,
    true, true, false, false)), (String ((Ascii (false, false, false, false,
    false, true, false, false)), (String ((Ascii (false, true, true, true,
    false, false, true, false)), (String ((Ascii (true, false, true, false,
    true, false, true, false)), (String ((Ascii (false, false, true, true,
    false, false, true, false)), (String ((Ascii (false, false, true, true,
    false, false, true, false)),
    EmptyString)))))))))))))))))))))))))))))))))))))))); r_cond = (NonNull
    (fun j -> j.jv_u0)); r_err =
    iMB_ERR_JOB_NULL_AUTH_KEY } :: (r_tag :: ((r_tag_len ((Npos (XO (XO (XO
                                                (XO XH))))) :: [])) :: [])))

(** val rules_CHACHA20_POLY1305_HASH : rule list **)

let rules_CHACHA20_POLY1305_HASH =
  r_hash_src_if_len :: ({ r_name = (String ((Ascii (false, false, true,
    false, false, true, true, false)), (String ((Ascii (true, true, false,
    false, true, true, true, false)), (String ((Ascii (false, false, true,
    false, true, true, true, false)), (String ((Ascii (false, false, false,
    false, false, true, false, false)), (String ((Ascii (true, false, false,
    false, false, true, false, false)), (String ((Ascii (true, false, true,
    true, true, true, false, false)), (String ((Ascii (false, false, false,
    false, false, true, false, false)), (String ((Ascii (false, true, true,
    true, false, false, true, false)), (String ((Ascii (true, false, true,
    false, true, false, true, false)), (String ((Ascii (false, false, true,
    true, false, false, true, false)), (String ((Ascii (false, false, true,
    true, false, false, true, false)), (String ((Ascii (false, false, false,
    false, false, true, false, false)), (String ((Ascii (true, true, true,
    false, true, true, true, false)), (String ((Ascii (false, false, false,
    true, false, true, true, false)), (String ((Ascii (true, false, true,
    false, false, true, true, false)), (String ((Ascii (false, true, true,
    true, false, true, true, false)), (String ((Ascii (false, false, false,
    false, false, true, false, false)), (String ((Ascii (false, false, true,
    false, true, true, true, false)), (String ((Ascii (false, false, false,
    true, false, true, true, false)), (String ((Ascii (true, false, true,
    false, false, true, true, false)), (String ((Ascii (false, true, false,
    false, true, true, true, false)), (String ((Ascii (true, false, true,
    false, false, true, true, false)), (String ((Ascii (false, false, false,
    false, false, true, false, false)), (String ((Ascii (true, false, false,
    true, false, true, true, false)), (String ((Ascii (true, true, false,
    false, true, true, true, false)), (String ((Ascii (false, false, false,
    false, false, true, false, false)), (String ((Ascii (false, false, true,
    false, false, true, true, false)), (String ((Ascii (true, false, false,
    false, false, true, true, false)), (String ((Ascii (false, false, true,
    false, true, true, true, false)), (String ((Ascii (true, false, false,
    false, false, true, true, false)),
    EmptyString))))))))))))))))))))))))))))))))))))))))))))))))))))))))))));
    r_cond = (When (hashLenNonZero, (NonNull (fun j -> j.jv_dst)))); r_err =
    iMB_ERR_JOB_NULL_DST } :: ((r_pair_cipher iMB_CIPHER_CHACHA20_POLY1305) :: (r_aad :: (r_tag :: (
    (r_tag_len ((Npos (XO (XO (XO (XO XH))))) :: [])) :: [])))))

(** val rules_CHACHA20_POLY1305_SGL_HASH : rule list **)

let rules_CHACHA20_POLY1305_SGL_HASH =
  r_hash_src_if_len :: ({ r_name = (String ((Ascii (false, false, true,
    false, false, true, true, false)), (String ((Ascii (true, true, false,
    false, true, true, true, false)), (String ((Ascii (false, false, true,
    false, true, true, true, false)), (String ((Ascii (false, false, false,
    false, false, true, false, false)), (String ((Ascii (true, false, false,
    false, false, true, false, false)), (String ((Ascii (true, false, true,
    true, true, true, false, false)), (String ((Ascii (false, false, false,
    false, false, true, false, false)), (String ((Ascii (false, true, true,
    true, false, false, true, false)), (String ((Ascii (true, false, true,
    false, true, false, true, false)), (String ((Ascii (false, false, true,
    true, false, false, true, false)), (String ((Ascii (false, false, true,
    true, false, false, true, false)), (String ((Ascii (false, false, false,
    false, false, true, false, false)), (String ((Ascii (true, true, true,
    false, true, true, true, false)), (String ((Ascii (false, false, false,
    true, false, true, true, false)), (String ((Ascii (true, false, true,
    false, false, true, true, false)), (String ((Ascii (false, true, true,
    true, false, true, true, false)), (String ((Ascii (false, false, false,
    false, false, true, false, false)), (String ((Ascii (false, false, true,
    false, true, true, true, false)), (String ((Ascii (false, false, false,
    true, false, true, true, false)), (String ((Ascii (true, false, true,
    false, false, true, true, false)), (String ((Ascii (false, true, false,
    false, true, true, true, false)), (String ((Ascii (true, false, true,
    false, false, true, true, false)), (String ((Ascii (false, false, false,
    false, false, true, false, false)), (String ((Ascii (true, false, false,
    true, false, true, true, false)), (String ((Ascii (true, true, false,
    false, true, true, true, false)), (String ((Ascii (false, false, false,
    false, false, true, false, false)), (String ((Ascii (false, false, true,
    false, false, true, true, false)), (String ((Ascii (true, false, false,
    false, false, true, true, false)), (String ((Ascii (false, false, true,
    false, true, true, true, false)), (String ((Ascii (true, false, false,
    false, false, true, true, false)),
    EmptyString))))))))))))))))))))))))))))))))))))))))))))))))))))))))))));
    r_cond = (When (hashLenNonZero, (NonNull (fun j -> j.jv_dst)))); r_err =
    iMB_ERR_JOB_NULL_DST } :: ((r_pair_cipher
                                 iMB_CIPHER_CHACHA20_POLY1305_SGL) :: (r_aad :: (r_tag :: (
    (r_tag_len ((Npos (XO (XO (XO (XO XH))))) :: [])) :: ({ r_name = (String
    ((Ascii (true, true, false, false, true, false, true, false)), (String
    ((Ascii (true, true, true, false, false, false, true, false)), (String
    ((Ascii (false, false, true, true, false, false, true, false)), (String
    ((Ascii (false, false, false, false, false, true, false, false)), (String
    ((Ascii (true, true, false, false, false, true, true, false)), (String
    ((Ascii (true, true, true, true, false, true, true, false)), (String
    ((Ascii (false, true, true, true, false, true, true, false)), (String
    ((Ascii (false, false, true, false, true, true, true, false)), (String
    ((Ascii (true, false, true, false, false, true, true, false)), (String
    ((Ascii (false, false, false, true, true, true, true, false)), (String
    ((Ascii (false, false, true, false, true, true, true, false)), (String
    ((Ascii (false, false, false, false, false, true, false, false)), (String
    ((Ascii (true, false, false, false, false, true, false, false)), (String
    ((Ascii (true, false, true, true, true, true, false, false)), (String
    ((Ascii (false, false, false, false, false, true, false, false)), (String
    ((Ascii (false, true, true, true, false, false, true, false)), (String
    ((Ascii (true, false, true, false, true, false, true, false)), (String
    ((Ascii (false, false, true, true, false, false, true, false)), (String
    ((Ascii (false, false, true, true, false, false, true, false)),
    EmptyString)))))))))))))))))))))))))))))))))))))); r_cond = (NonNull
    (fun j -> j.jv_u2)); r_err = iMB_ERR_JOB_NULL_SGL_CTX } :: []))))))

(** val rules_SNOW_V_AEAD_HASH : rule list **)

let rules_SNOW_V_AEAD_HASH =
  r_aad :: (r_tag :: ((r_tag_len ((Npos (XO (XO (XO (XO XH))))) :: [])) :: (
    (r_pair_cipher iMB_CIPHER_SNOW_V_AEAD) :: [])))

(** val rules_SM3 : rule list **)

let rules_SM3 =
  (r_tag_len_between (Npos XH) iMB_SM3_DIGEST_SIZE) :: (r_hash_src :: (r_tag :: []))

(** val rules_HMAC_SM3 : rule list **)

let rules_HMAC_SM3 =
  app ({ r_name = (String ((Ascii (true, false, false, true, false, true,
    true, false)), (String ((Ascii (false, false, false, false, true, true,
    true, false)), (String ((Ascii (true, false, false, false, false, true,
    true, false)), (String ((Ascii (false, false, true, false, false, true,
    true, false)), (String ((Ascii (false, false, false, false, false, true,
    false, false)), (String ((Ascii (true, false, false, false, false, true,
    false, false)), (String ((Ascii (true, false, true, true, true, true,
    false, false)), (String ((Ascii (false, false, false, false, false, true,
    false, false)), (String ((Ascii (false, true, true, true, false, false,
    true, false)), (String ((Ascii (true, false, true, false, true, false,
    true, false)), (String ((Ascii (false, false, true, true, false, false,
    true, false)), (String ((Ascii (false, false, true, true, false, false,
    true, false)), EmptyString)))))))))))))))))))))))); r_cond = (NonNull
    (fun j -> j.jv_u0)); r_err = iMB_ERR_JOB_NULL_HMAC_IPAD } :: ({ r_name =
    (String ((Ascii (true, true, true, true, false, true, true, false)),
    (String ((Ascii (false, false, false, false, true, true, true, false)),
    (String ((Ascii (true, false, false, false, false, true, true, false)),
    (String ((Ascii (false, false, true, false, false, true, true, false)),
    (String ((Ascii (false, false, false, false, false, true, false, false)),
    (String ((Ascii (true, false, false, false, false, true, false, false)),
    (String ((Ascii (true, false, true, true, true, true, false, false)),
    (String ((Ascii (false, false, false, false, false, true, false, false)),
    (String ((Ascii (false, true, true, true, false, false, true, false)),
    (String ((Ascii (true, false, true, false, true, false, true, false)),
    (String ((Ascii (false, false, true, true, false, false, true, false)),
    (String ((Ascii (false, false, true, true, false, false, true, false)),
    EmptyString)))))))))))))))))))))))); r_cond = (NonNull (fun j ->
    j.jv_u1)); r_err = iMB_ERR_JOB_NULL_HMAC_OPAD } :: ({ r_name = (String
    ((Ascii (false, false, false, true, false, true, true, false)), (String
    ((Ascii (true, false, false, false, false, true, true, false)), (String
    ((Ascii (true, true, false, false, true, true, true, false)), (String
    ((Ascii (false, false, false, true, false, true, true, false)), (String
    ((Ascii (false, false, false, false, false, true, false, false)), (String
    ((Ascii (false, false, true, true, false, true, true, false)), (String
    ((Ascii (true, false, true, false, false, true, true, false)), (String
    ((Ascii (false, true, true, true, false, true, true, false)), (String
    ((Ascii (true, true, true, false, false, true, true, false)), (String
    ((Ascii (false, false, true, false, true, true, true, false)), (String
    ((Ascii (false, false, false, true, false, true, true, false)), (String
    ((Ascii (false, false, false, false, false, true, false, false)), (String
    ((Ascii (false, true, true, true, false, true, true, false)), (String
    ((Ascii (true, true, true, true, false, true, true, false)), (String
    ((Ascii (false, true, true, true, false, true, true, false)), (String
    ((Ascii (true, false, true, true, false, true, false, false)), (String
    ((Ascii (false, true, false, true, true, true, true, false)), (String
    ((Ascii (true, false, true, false, false, true, true, false)), (String
    ((Ascii (false, true, false, false, true, true, true, false)), (String
    ((Ascii (true, true, true, true, false, true, true, false)),
    EmptyString)))))))))))))))))))))))))))))))))))))))); r_cond = (ValAtLeast
    ((fun j -> j.jv_msg_len_to_hash), (Npos XH))); r_err =
    iMB_ERR_JOB_AUTH_LEN } :: []))) rules_SM3

(** val rules_SM4_GCM_HASH : rule list **)

let rules_SM4_GCM_HASH =
  (r_tag_len_between (Npos XH) (Npos (XO (XO (XO (XO XH)))))) :: (r_aad :: (
    (r_pair_cipher iMB_CIPHER_SM4_GCM) :: (r_tag :: [])))

(** val hash_catalogue : (n * rule list) list **)

let hash_catalogue =
  (iMB_AUTH_HMAC_SHA_1,
    (rules_HMAC (Npos (XO (XO (XI XH)))) (Npos (XO (XO (XI (XO XH))))))) :: ((iMB_AUTH_HMAC_SHA_224,
    (rules_HMAC (Npos (XO (XI (XI XH)))) (Npos (XO (XO (XI (XI XH))))))) :: ((iMB_AUTH_HMAC_SHA_256,
    (rules_HMAC (Npos (XO (XO (XO (XO XH))))) (Npos (XO (XO (XO (XO (XO
      XH)))))))) :: ((iMB_AUTH_HMAC_SHA_384,
    (rules_HMAC (Npos (XO (XO (XO (XI XH))))) (Npos (XO (XO (XO (XO (XI
      XH)))))))) :: ((iMB_AUTH_HMAC_SHA_512,
    (rules_HMAC (Npos (XO (XO (XO (XO (XO XH)))))) (Npos (XO (XO (XO (XO (XO
      (XO XH))))))))) :: ((iMB_AUTH_AES_XCBC, rules_XCBC) :: ((iMB_AUTH_MD5,
    (rules_HMAC (Npos (XO (XO (XI XH)))) (Npos (XO (XO (XO (XO XH))))))) :: ((iMB_AUTH_NULL,
    rules_AUTH_NULL) :: ((iMB_AUTH_AES_GMAC,
    rules_AES_GMAC) :: ((iMB_AUTH_CUSTOM,
    rules_AUTH_CUSTOM) :: ((iMB_AUTH_AES_CCM,
    rules_AES_CCM) :: ((iMB_AUTH_AES_CMAC, rules_CMAC) :: ((iMB_AUTH_SHA_1,
    (rules_SHA (Npos (XO (XO (XI (XO XH))))))) :: ((iMB_AUTH_SHA_224,
    (rules_SHA (Npos (XO (XO (XI (XI XH))))))) :: ((iMB_AUTH_SHA_256,
    (rules_SHA (Npos (XO (XO (XO (XO (XO XH)))))))) :: ((iMB_AUTH_SHA_384,
    (rules_SHA (Npos (XO (XO (XO (XO (XI XH)))))))) :: ((iMB_AUTH_SHA_512,
    (rules_SHA (Npos (XO (XO (XO (XO (XO (XO XH))))))))) :: ((iMB_AUTH_AES_CMAC_BITLEN,
    rules_CMAC_BITLEN) :: ((iMB_AUTH_PON_CRC_BIP,
    rules_PON_CRC_BIP) :: ((iMB_AUTH_ZUC_EIA3_BITLEN,
    rules_ZUC_EIA3) :: ((iMB_AUTH_DOCSIS_CRC32,
    rules_DOCSIS_CRC32) :: ((iMB_AUTH_SNOW3G_UIA2_BITLEN,
    rules_SNOW3G_UIA2) :: ((iMB_AUTH_KASUMI_UIA1,
    rules_KASUMI_UIA1) :: ((iMB_AUTH_AES_GMAC_128,
    rules_GMAC_STANDALONE) :: ((iMB_AUTH_AES_GMAC_192,
    rules_GMAC_STANDALONE) :: ((iMB_AUTH_AES_GMAC_256,
    rules_GMAC_STANDALONE) :: ((iMB_AUTH_AES_CMAC_256,
    rules_CMAC) :: ((iMB_AUTH_POLY1305,
    rules_POLY1305) :: ((iMB_AUTH_CHACHA20_POLY1305,
    rules_CHACHA20_POLY1305_HASH) :: ((iMB_AUTH_CHACHA20_POLY1305_SGL,
    rules_CHACHA20_POLY1305_SGL_HASH) :: ((iMB_AUTH_ZUC256_EIA3_BITLEN,
    rules_ZUC256_EIA3) :: ((iMB_AUTH_SNOW_V_AEAD,
    rules_SNOW_V_AEAD_HASH) :: ((iMB_AUTH_GCM_SGL,
    rules_GCM_SGL_HASH) :: ((iMB_AUTH_CRC32_ETHERNET_FCS,
    rules_CRC) :: ((iMB_AUTH_CRC32_SCTP,
    rules_CRC) :: ((iMB_AUTH_CRC32_WIMAX_OFDMA_DATA,
    rules_CRC) :: ((iMB_AUTH_CRC24_LTE_A,
    rules_CRC) :: ((iMB_AUTH_CRC24_LTE_B, rules_CRC) :: ((iMB_AUTH_CRC16_X25,
    rules_CRC) :: ((iMB_AUTH_CRC16_FP_DATA,
    rules_CRC) :: ((iMB_AUTH_CRC11_FP_HEADER,
    rules_CRC) :: ((iMB_AUTH_CRC10_IUUP_DATA,
    rules_CRC) :: ((iMB_AUTH_CRC8_WIMAX_OFDMA_HCS,
    rules_CRC) :: ((iMB_AUTH_CRC7_FP_HEADER,
    rules_CRC) :: ((iMB_AUTH_CRC6_IUUP_HEADER,
    rules_CRC) :: ((iMB_AUTH_GHASH, rules_GHASH) :: ((iMB_AUTH_SM3,
    rules_SM3) :: ((iMB_AUTH_HMAC_SM3, rules_HMAC_SM3) :: ((iMB_AUTH_SM4_GCM,
    rules_SM4_GCM_HASH) :: []))))))))))))))))))))))))))))))))))))))))))))))))

(** val assoc_rules : n -> (n * rule list) list -> rule list option **)

let rec assoc_rules k = function
| [] -> None
| p :: t ->
  let (k', rs) = p in if N.eqb k k' then Some rs else assoc_rules k t

(** val cipher_rules : n -> rule list **)

let cipher_rules cm =
  match assoc_rules cm cipher_catalogue with
  | Some rs -> rs
  | None -> []

(** val hash_rules : n -> rule list **)

let hash_rules ha =
  match assoc_rules ha hash_catalogue with
  | Some rs -> rs
  | None -> []

(** val r_common_dir : rule **)

let r_common_dir =
  { r_name = (String ((Ascii (true, true, false, false, false, true, true,
    false)), (String ((Ascii (true, false, false, true, false, true, true,
    false)), (String ((Ascii (false, false, false, false, true, true, true,
    false)), (String ((Ascii (false, false, false, true, false, true, true,
    false)), (String ((Ascii (true, false, true, false, false, true, true,
    false)), (String ((Ascii (false, true, false, false, true, true, true,
    false)), (String ((Ascii (false, false, false, false, false, true, false,
    false)), (String ((Ascii (false, false, true, false, false, true, true,
    false)), (String ((Ascii (true, false, false, true, false, true, true,
    false)), (String ((Ascii (false, true, false, false, true, true, true,
    false)), (String ((Ascii (true, false, true, false, false, true, true,
    false)), (String ((Ascii (true, true, false, false, false, true, true,
    false)), (String ((Ascii (false, false, true, false, true, true, true,
    false)), (String ((Ascii (true, false, false, true, false, true, true,
    false)), (String ((Ascii (true, true, true, true, false, true, true,
    false)), (String ((Ascii (false, true, true, true, false, true, true,
    false)), (String ((Ascii (false, false, false, false, false, true, false,
    false)), (String ((Ascii (true, false, false, true, false, true, true,
    false)), (String ((Ascii (true, true, false, false, true, true, true,
    false)), (String ((Ascii (false, false, false, false, false, true, false,
    false)), (String ((Ascii (true, false, true, false, false, false, true,
    false)), (String ((Ascii (false, true, true, true, false, false, true,
    false)), (String ((Ascii (true, true, false, false, false, false, true,
    false)), (String ((Ascii (false, true, false, false, true, false, true,
    false)), (String ((Ascii (true, false, false, true, true, false, true,
    false)), (String ((Ascii (false, false, false, false, true, false, true,
    false)), (String ((Ascii (false, false, true, false, true, false, true,
    false)), (String ((Ascii (false, false, false, false, false, true, false,
    false)), (String ((Ascii (true, true, true, true, false, true, true,
    false)), (String ((Ascii (false, true, false, false, true, true, true,
    false)), (String ((Ascii (false, false, false, false, false, true, false,
    false)), (String ((Ascii (false, false, true, false, false, false, true,
    false)), (String ((Ascii (true, false, true, false, false, false, true,
    false)), (String ((Ascii (true, true, false, false, false, false, true,
    false)), (String ((Ascii (false, true, false, false, true, false, true,
    false)), (String ((Ascii (true, false, false, true, true, false, true,
    false)), (String ((Ascii (false, false, false, false, true, false, true,
    false)), (String ((Ascii (false, false, true, false, true, false, true,
    false)), (String ((Ascii (false, false, false, false, false, true, false,
    false)), (String ((Ascii (false, false, false, true, false, true, false,
    false)), (String ((Ascii (true, false, true, false, true, true, true,
    false)), (String ((Ascii (false, true, true, true, false, true, true,
    false)), (String ((Ascii (false, false, true, true, false, true, true,
    false)), (String ((Ascii (true, false, true, false, false, true, true,
    false)), (String ((Ascii (true, true, false, false, true, true, true,
    false)), (String ((Ascii (true, true, false, false, true, true, true,
    false)), (String ((Ascii (false, false, false, false, false, true, false,
    false)), (String ((Ascii (false, true, true, true, false, false, true,
    false)), (String ((Ascii (true, false, true, false, true, false, true,
    false)), (String ((Ascii (false, false, true, true, false, false, true,
    false)), (String ((Ascii (false, false, true, true, false, false, true,
    false)), (String ((Ascii (false, false, false, false, false, true, false,
    false)), (String ((Ascii (true, true, false, false, false, true, true,
    false)), (String ((Ascii (true, false, false, true, false, true, true,
    false)), (String ((Ascii (false, false, false, false, true, true, true,
    false)), (String ((Ascii (false, false, false, true, false, true, true,
    false)), (String ((Ascii (true, false, true, false, false, true, true,
    false)), (String ((Ascii (false, true, false, false, true, true, true,
    false)), (String ((Ascii (true, false, false, true, false, true, false,
    false)),
    EmptyString))))))))))))))))))))))))))))))))))))))))))))))))))))))))))))))))))))))))))))))))))))))))))))))))))))))))))))))))))))));
    r_cond = (Either ((ValIn ((fun j -> j.jv_cipher_direction),
    (iMB_DIR_ENCRYPT :: (iMB_DIR_DECRYPT :: [])))), (ValIn ((fun j ->
    j.jv_cipher_mode), (iMB_CIPHER_NULL :: []))))); r_err =
    iMB_ERR_JOB_CIPH_DIR }

(** val r_common_mode : rule **)

let r_common_mode =
  { r_name = (String ((Ascii (true, true, false, false, false, true, true,
    false)), (String ((Ascii (true, false, false, true, false, true, true,
    false)), (String ((Ascii (false, false, false, false, true, true, true,
    false)), (String ((Ascii (false, false, false, true, false, true, true,
    false)), (String ((Ascii (true, false, true, false, false, true, true,
    false)), (String ((Ascii (false, true, false, false, true, true, true,
    false)), (String ((Ascii (false, false, false, false, false, true, false,
    false)), (String ((Ascii (true, false, true, true, false, true, true,
    false)), (String ((Ascii (true, true, true, true, false, true, true,
    false)), (String ((Ascii (false, false, true, false, false, true, true,
    false)), (String ((Ascii (true, false, true, false, false, true, true,
    false)), (String ((Ascii (false, false, false, false, false, true, false,
    false)), (String ((Ascii (true, false, false, true, false, true, true,
    false)), (String ((Ascii (true, true, false, false, true, true, true,
    false)), (String ((Ascii (false, false, false, false, false, true, false,
    false)), (String ((Ascii (true, true, false, false, true, true, true,
    false)), (String ((Ascii (true, false, true, false, true, true, true,
    false)), (String ((Ascii (false, false, false, false, true, true, true,
    false)), (String ((Ascii (false, false, false, false, true, true, true,
    false)), (String ((Ascii (true, true, true, true, false, true, true,
    false)), (String ((Ascii (false, true, false, false, true, true, true,
    false)), (String ((Ascii (false, false, true, false, true, true, true,
    false)), (String ((Ascii (true, false, true, false, false, true, true,
    false)), (String ((Ascii (false, false, true, false, false, true, true,
    false)), EmptyString))))))))))))))))))))))))))))))))))))))))))))))));
    r_cond = (ValIn ((fun j -> j.jv_cipher_mode),
    (map fst cipher_catalogue))); r_err = iMB_ERR_CIPH_MODE }

(** val r_common_hash : rule **)

let r_common_hash =
  { r_name = (String ((Ascii (false, false, false, true, false, true, true,
    false)), (String ((Ascii (true, false, false, false, false, true, true,
    false)), (String ((Ascii (true, true, false, false, true, true, true,
    false)), (String ((Ascii (false, false, false, true, false, true, true,
    false)), (String ((Ascii (false, false, false, false, false, true, false,
    false)), (String ((Ascii (true, false, false, false, false, true, true,
    false)), (String ((Ascii (false, false, true, true, false, true, true,
    false)), (String ((Ascii (true, true, true, false, false, true, true,
    false)), (String ((Ascii (true, true, true, true, false, true, true,
    false)), (String ((Ascii (false, true, false, false, true, true, true,
    false)), (String ((Ascii (true, false, false, true, false, true, true,
    false)), (String ((Ascii (false, false, true, false, true, true, true,
    false)), (String ((Ascii (false, false, false, true, false, true, true,
    false)), (String ((Ascii (true, false, true, true, false, true, true,
    false)), (String ((Ascii (false, false, false, false, false, true, false,
    false)), (String ((Ascii (true, false, false, true, false, true, true,
    false)), (String ((Ascii (true, true, false, false, true, true, true,
    false)), (String ((Ascii (false, false, false, false, false, true, false,
    false)), (String ((Ascii (true, true, false, false, true, true, true,
    false)), (String ((Ascii (true, false, true, false, true, true, true,
    false)), (String ((Ascii (false, false, false, false, true, true, true,
    false)), (String ((Ascii (false, false, false, false, true, true, true,
    false)), (String ((Ascii (true, true, true, true, false, true, true,
    false)), (String ((Ascii (false, true, false, false, true, true, true,
    false)), (String ((Ascii (false, false, true, false, true, true, true,
    false)), (String ((Ascii (true, false, true, false, false, true, true,
    false)), (String ((Ascii (false, false, true, false, false, true, true,
    false)),
    EmptyString))))))))))))))))))))))))))))))))))))))))))))))))))))));
    r_cond = (ValIn ((fun j -> j.jv_hash_alg), (map fst hash_catalogue)));
    r_err = iMB_ERR_HASH_ALGO }

(** val common_rules : rule list **)

let common_rules =
  r_common_dir :: (r_common_mode :: (r_common_hash :: []))

(** val all_rules : job_view -> rule list **)

let all_rules j =
  app common_rules
    (app (cipher_rules j.jv_cipher_mode) (hash_rules j.jv_hash_alg))

(** val job_ok : job_view -> bool **)

let job_ok j =
  rules_ok (all_rules j) j

(** val violations : job_view -> n list **)

let violations j =
  violations_of (all_rules j) j

(** val disc_D2_key_len_truncated : job_view -> bool **)

let disc_D2_key_len_truncated j =
  N.leb (Npos (XO (XO (XO (XO (XO (XO (XO (XO (XO (XO (XO (XO (XO (XO (XO (XO
    (XO (XO (XO (XO (XO (XO (XO (XO (XO (XO (XO (XO (XO (XO (XO (XO
    XH))))))))))))))))))))))))))))))))) j.jv_key_len_in_bytes

(** val disc_D3_sgl_total_wraps : job_view -> bool **)

let disc_D3_sgl_total_wraps j =
  (&&) (uses_sgl_array j)
    (N.leb (Npos (XO (XO (XO (XO (XO (XO (XO (XO (XO (XO (XO (XO (XO (XO (XO
      (XO (XO (XO (XO (XO (XO (XO (XO (XO (XO (XO (XO (XO (XO (XO (XO (XO (XO
      (XO (XO (XO (XO (XO (XO (XO (XO (XO (XO (XO (XO (XO (XO (XO (XO (XO (XO
      (XO (XO (XO (XO (XO (XO (XO (XO (XO (XO (XO (XO (XO
      XH)))))))))))))))))))))))))))))))))))))))))))))))))))))))))))))))))
      (sgl_total j.jv_sgl_segs))

(** val disc_D8_docsis_offset_wraps : job_view -> bool **)

let disc_D8_docsis_offset_wraps j =
  (&&) (N.eqb j.jv_hash_alg iMB_AUTH_DOCSIS_CRC32)
    (N.leb (Npos (XO (XO (XO (XO (XO (XO (XO (XO (XO (XO (XO (XO (XO (XO (XO
      (XO (XO (XO (XO (XO (XO (XO (XO (XO (XO (XO (XO (XO (XO (XO (XO (XO (XO
      (XO (XO (XO (XO (XO (XO (XO (XO (XO (XO (XO (XO (XO (XO (XO (XO (XO (XO
      (XO (XO (XO (XO (XO (XO (XO (XO (XO (XO (XO (XO (XO
      XH)))))))))))))))))))))))))))))))))))))))))))))))))))))))))))))))))
      (N.add j.jv_hash_start_src_offset (Npos (XO (XO (XI XH))))))

(** val outside_known_discrepancies : job_view -> bool **)

let outside_known_discrepancies j =
  (&&)
    ((&&) (negb (disc_D2_key_len_truncated j))
      (negb (disc_D3_sgl_total_wraps j)))
    (negb (disc_D8_docsis_offset_wraps j))

(** val discrepancy_flags : job_view -> n list **)

let discrepancy_flags j =
  app (if disc_D2_key_len_truncated j then (Npos (XO XH)) :: [] else [])
    (app (if disc_D3_sgl_total_wraps j then (Npos (XI XH)) :: [] else [])
      (if disc_D8_docsis_offset_wraps j
       then (Npos (XO (XO (XO XH)))) :: []
       else []))
