#!/bin/sh
# Build the framework offline from files on disk: library, Coq development, extracted model, harnesses.
set -e
cd "$(dirname "$0")"
python3 - <<'PY'
import sys, os
sys.path.insert(0, os.getcwd())
from checks import common
print("lib build: %.1fs" % common.build_lib())
PY
if [ -x ./build_all.sh ]; then ./build_all.sh; fi
